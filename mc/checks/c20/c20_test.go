// C20 — interpolation and linear algebra over the scalar fields are exact.
//
// Space: all matrices over the entry alphabet {0,1,2,q-1} of shapes up to 3x3 (plus non-square shapes over
// {0,1,q-1}) x all right-hand sides over the same alphabet; all node sets / coefficient vectors / derivative
// patterns for the interpolators. Oracle: math/big Gaussian elimination and direct polynomial evaluation.
package c20

import (
	"fmt"
	"math/big"
	"slices"
	"testing"
	"time"

	"github.com/bronlabs/bron-crypto/pkg/base/algebra"
	"github.com/bronlabs/bron-crypto/pkg/base/curves/k256"
	"github.com/bronlabs/bron-crypto/pkg/base/curves/pairable/bls12381"
	"github.com/bronlabs/bron-crypto/pkg/base/mat"
	"github.com/bronlabs/bron-crypto/pkg/base/polynomials"
	"github.com/bronlabs/bron-crypto/pkg/base/polynomials/interpolation/birkhoff"
	"github.com/bronlabs/bron-crypto/pkg/base/polynomials/interpolation/lagrange"
	"github.com/bronlabs/bron-crypto/pkg/base/polynomials/interpolation/vandermonde"

	"verifmc/engine"
	"verifmc/ref/conv"
	"verifmc/ref/linalg"
)

func TestMain(m *testing.M) { engine.Main(m, "C20", "exploration") }

type fieldCtx[F algebra.PrimeFieldElement[F]] struct {
	name  string
	field algebra.PrimeField[F]
	q     *big.Int
}

func (c fieldCtx[F]) el(v *big.Int) F { return conv.FromBig(c.field, c.q, v) }

// entry alphabet index -> value
func alpha(q *big.Int, i int) *big.Int {
	switch i {
	case 0:
		return big.NewInt(0)
	case 1:
		return big.NewInt(1)
	case 2:
		return new(big.Int).Sub(q, big.NewInt(1))
	default:
		return big.NewInt(2)
	}
}

func libMat[F algebra.PrimeFieldElement[F]](c fieldCtx[F], r *linalg.Mat) *mat.Matrix[F] {
	mod, err := mat.NewMatrixModule(uint(r.R), uint(r.C), c.field)
	if err != nil {
		panic(err)
	}
	els := make([]F, 0, r.R*r.C)
	for i := 0; i < r.R; i++ {
		for j := 0; j < r.C; j++ {
			els = append(els, c.el(r.A[i][j]))
		}
	}
	m, err := mod.NewRowMajor(els...)
	if err != nil {
		panic(err)
	}
	return m
}

func refMat[F algebra.PrimeFieldElement[F]](c fieldCtx[F], m *mat.Matrix[F]) *linalg.Mat {
	r, cc := m.Dimensions()
	out := linalg.New(c.q, r, cc)
	for i := 0; i < r; i++ {
		for j := 0; j < cc; j++ {
			e, err := m.Get(i, j)
			if err != nil {
				panic(err)
			}
			out.A[i][j] = conv.ToBig(e)
		}
	}
	return out
}

// decode the idx-th matrix of shape r x c over an alphabet of size a
func nthMat(q *big.Int, r, c, a, idx int) *linalg.Mat {
	m := linalg.New(q, r, c)
	for i := 0; i < r; i++ {
		for j := 0; j < c; j++ {
			m.A[i][j] = alpha(q, idx%a)
			idx /= a
		}
	}
	return m
}

func ipow(a, b int) int {
	r := 1
	for ; b > 0; b-- {
		r *= a
	}
	return r
}

type shape struct{ r, c, a int }

func solveBody[F algebra.PrimeFieldElement[F]](c fieldCtx[F], shapes []shape) func(*engine.X) {
	return func(x *engine.X) {
		sh := shapes[x.Choose("shape", len(shapes))]
		// the first row is a Choose point (gives the explorer parallel subtrees); the rest is an inner loop
		rowCombos := ipow(sh.a, sh.c)
		first := x.Choose("row0", rowCombos)
		rest := ipow(sh.a, (sh.r-1)*sh.c)
		for k := 0; k < rest; k++ {
			idx := first + rowCombos*k
			M := nthMat(c.q, sh.r, sh.c, sh.a, idx)
			L := libMat(c, M)
			key := fmt.Sprintf("%s/%dx%d/%d", c.name, sh.r, sh.c, idx)
			x.Case(key)
			// transpose
			if !refMat(c, L.Transpose()).Equal(M.Transpose()) {
				x.Failf("transpose", "%s: Transpose wrong", key)
			}
			// M·x = b for all b over the alphabet
			for bi := 0; bi < ipow(sh.a, sh.r); bi++ {
				b := nthMat(c.q, sh.r, 1, sh.a, bi)
				bcol := make([]*big.Int, sh.r)
				for i := range bcol {
					bcol[i] = b.A[i][0]
				}
				want := M.Consistent(bcol)
				sol, err := mat.SolveRight(L, libMat(c, b))
				x.Case("")
				if (err == nil) != want {
					x.Failf("solveright/existence", "%s b=%d: SolveRight err=%v but reference consistent=%v", key, bi, err, want)
					continue
				}
				if err == nil {
					s := refMat(c, sol)
					if s.R != sh.c || s.C != 1 || !M.Mul(s).Equal(b) {
						x.Failf("solveright/value", "%s b=%d: returned solution does not satisfy M·x=b", key, bi)
					}
				}
			}
			// x·M = r for all r over the alphabet
			for ri := 0; ri < ipow(sh.a, sh.c); ri++ {
				r := nthMat(c.q, 1, sh.c, sh.a, ri)
				want := M.Transpose().Consistent(r.A[0])
				sol, err := mat.SolveLeft(L, libMat(c, r))
				x.Case("")
				if (err == nil) != want {
					x.Failf("solveleft/existence", "%s r=%d: SolveLeft err=%v but reference consistent=%v", key, ri, err, want)
					continue
				}
				if err == nil {
					s := refMat(c, sol) // documented: m×1
					if s.R != sh.r || s.C != 1 || !s.Transpose().Mul(M).Equal(r) {
						x.Failf("solveleft/value", "%s r=%d: returned solution does not satisfy x·M=r", key, ri)
					}
				}
			}
			if sh.r == sh.c {
				sq, err := L.AsSquare()
				if err != nil {
					x.Failf("assquare", "%s: AsSquare: %v", key, err)
					continue
				}
				det := M.Det()
				if conv.ToBig(sq.Determinant()).Cmp(det) != 0 {
					x.Failf("det", "%s: Determinant=%v want %v", key, conv.ToBig(sq.Determinant()), det)
				}
				inv, err := sq.TryInv()
				if (err == nil) != (det.Sign() != 0) {
					x.Failf("inv/existence", "%s: TryInv err=%v det=%v", key, err, det)
				} else if err == nil {
					p := refMat(c, inv.AsRectangular())
					if !M.Mul(p).Equal(identity(c.q, sh.r)) || !p.Mul(M).Equal(identity(c.q, sh.r)) {
						x.Failf("inv/value", "%s: M·M⁻¹ ≠ I", key)
					}
					if !sq.Mul(inv).IsIdentity() {
						x.Failf("inv/lib", "%s: lib Mul(inv) not identity", key)
					}
				}
			}
		}
		x.Observe(sh, first)
	}
}

func identity(q *big.Int, n int) *linalg.Mat {
	m := linalg.New(q, n, n)
	for i := 0; i < n; i++ {
		m.A[i][i] = big.NewInt(1)
	}
	return m
}

// products: all pairs of matrices of compatible small shapes
func mulBody[F algebra.PrimeFieldElement[F]](c fieldCtx[F]) func(*engine.X) {
	type ms struct{ r, k, c, a int }
	shapes := []ms{{1, 1, 1, 4}, {2, 2, 2, 4}, {1, 2, 1, 4}, {2, 1, 2, 4}, {2, 3, 2, 3}, {3, 2, 1, 3}, {1, 3, 3, 3}}
	return func(x *engine.X) {
		sh := shapes[x.Choose("shape", len(shapes))]
		ai := x.Choose("A", ipow(sh.a, sh.r*sh.k))
		A := nthMat(c.q, sh.r, sh.k, sh.a, ai)
		LA := libMat(c, A)
		for bi := 0; bi < ipow(sh.a, sh.k*sh.c); bi++ {
			B := nthMat(c.q, sh.k, sh.c, sh.a, bi)
			x.Case(fmt.Sprintf("%s/%v/%d/%d", c.name, sh, ai, bi))
			P, err := LA.TryMul(libMat(c, B))
			if err != nil {
				x.Failf("mul/err", "TryMul failed on compatible shapes %v: %v", sh, err)
				continue
			}
			if !refMat(c, P).Equal(A.Mul(B)) {
				x.Failf("mul/value", "TryMul wrong for shape %v A=%d B=%d", sh, ai, bi)
			}
		}
		// incompatible inner dimension must be refused
		if _, err := LA.TryMul(libMat(c, nthMat(c.q, sh.k+1, 1, 2, 1))); err == nil {
			x.Failf("mul/dim", "TryMul accepted incompatible shapes")
		}
	}
}

var nodeAlphabet = func(q *big.Int) []*big.Int {
	big32, _ := new(big.Int).SetString("100000001", 16)
	return []*big.Int{big.NewInt(1), big.NewInt(2), big.NewInt(3), big.NewInt(5), big.NewInt(7), big32, new(big.Int).Sub(q, big.NewInt(1))}
}

// interpolation: every non-empty node subset of size<=4 (in two orders), every coefficient vector over {0,1,q-1}
func interpBody[F algebra.PrimeFieldElement[F]](c fieldCtx[F]) func(*engine.X) {
	nodes := nodeAlphabet(c.q)
	return func(x *engine.X) {
		mask := 1 + x.Choose("nodeset", (1<<len(nodes))-1)
		var ns []*big.Int
		for i := range nodes {
			if mask>>i&1 == 1 {
				ns = append(ns, nodes[i])
			}
		}
		if len(ns) > 4 {
			x.Trivial()
			return
		}
		if x.Choose("order", 2) == 1 {
			slices.Reverse(ns) // unsorted (descending) node order
		}
		k := len(ns)
		libNodes := make([]F, k)
		for i := range ns {
			libNodes[i] = c.el(ns[i])
		}
		ats := []*big.Int{big.NewInt(0), big.NewInt(1), ns[0], big.NewInt(11)}
		for ci := 0; ci < ipow(3, k); ci++ {
			coeffs := make([]*big.Int, k)
			t := ci
			for i := range coeffs {
				coeffs[i] = alpha(c.q, t%3)
				t /= 3
			}
			vals := make([]F, k)
			for i := range ns {
				vals[i] = c.el(linalg.EvalPoly(c.q, coeffs, ns[i]))
			}
			x.Case(fmt.Sprintf("%s/%d/%d", c.name, mask, ci))
			// the library's own polynomial evaluation first
			ring, _ := polynomials.NewPolynomialRing(c.field)
			lc := make([]F, k)
			for i := range coeffs {
				lc[i] = c.el(coeffs[i])
			}
			if p, err := ring.New(lc...); err == nil {
				for i := range ns {
					if !p.Eval(libNodes[i]).Equal(vals[i]) {
						x.Failf("poly/eval", "Polynomial.Eval disagrees with reference at node %v", ns[i])
					}
				}
			}
			for _, at := range ats {
				want := linalg.EvalPoly(c.q, coeffs, at)
				got, err := lagrange.InterpolateAt(libNodes, vals, c.el(at))
				if err != nil {
					x.Failf("lagrange/err", "InterpolateAt(nodes=%v) failed: %v", ns, err)
				} else if conv.ToBig(got).Cmp(want) != 0 {
					x.Failf("lagrange/value", "Lagrange nodes=%v coeffs=%v at=%v: got %v want %v", ns, coeffs, at, conv.ToBig(got), want)
				}
				vp, err := vandermonde.Interpolate(libNodes, vals, c.el(at))
				if err != nil {
					x.Failf("vandermonde/err", "Interpolate(nodes=%v) failed: %v", ns, err)
				} else if conv.ToBig(vp.Eval(c.el(at))).Cmp(want) != 0 {
					x.Failf("vandermonde/value", "Vandermonde nodes=%v coeffs=%v at=%v wrong", ns, coeffs, at)
				}
			}
		}
		// duplicate node must be refused (no polynomial is determined)
		if k >= 1 && k <= 3 {
			dn := append(append([]F{}, libNodes...), libNodes[0])
			dv := make([]F, len(dn))
			for i := range dv {
				dv[i] = c.el(big.NewInt(int64(i + 1)))
			}
			if _, err := lagrange.InterpolateAt(dn, dv, c.el(big.NewInt(0))); err == nil {
				x.Failf("lagrange/dup", "Lagrange accepted a duplicate node with conflicting values")
			}
		}
		x.Observe(mask)
	}
}

// Birkhoff: node sets of size n<=4 with derivative orders; the generalised Vandermonde system is solvable iff
// the reference determinant is non-zero, and when it is the returned polynomial must reproduce the data.
func birkhoffBody[F algebra.PrimeFieldElement[F]](c fieldCtx[F]) func(*engine.X) {
	xsAlpha := []int64{1, 2, 3, 5}
	return func(x *engine.X) {
		n := 1 + x.Choose("n", 4)
		xs := make([]*big.Int, n)
		js := make([]uint64, n)
		for i := 0; i < n; i++ {
			xs[i] = big.NewInt(xsAlpha[x.Choose("x", len(xsAlpha))])
			js[i] = uint64(x.Choose("j", n))
		}
		// reference system: row i = j_i-th derivative of (1, X, X², …) at x_i
		M := linalg.New(c.q, n, n)
		for i := 0; i < n; i++ {
			for col := 0; col < n; col++ {
				unit := make([]*big.Int, n)
				for u := range unit {
					unit[u] = big.NewInt(0)
				}
				unit[col] = big.NewInt(1)
				M.A[i][col] = linalg.EvalPolyDeriv(c.q, unit, int(js[i]), xs[i])
			}
		}
		det := M.Det()
		lx := make([]F, n)
		for i := range xs {
			lx[i] = c.el(xs[i])
		}
		ca, off := 3, 0
		if n == 4 && !engine.Thorough() {
			ca, off = 2, 1 // quick: coefficient alphabet {1,q-1} for n=4 (all of {0,1,q-1} in thorough)
		}
		for ci := 0; ci < ipow(ca, n); ci++ {
			coeffs := make([]*big.Int, n)
			t := ci
			for i := range coeffs {
				coeffs[i] = alpha(c.q, off+t%ca)
				t /= ca
			}
			ys := make([]F, n)
			for i := range ys {
				ys[i] = c.el(linalg.EvalPolyDeriv(c.q, coeffs, int(js[i]), xs[i]))
			}
			x.Case(fmt.Sprintf("%s/%v/%v/%d", c.name, xs, js, ci))
			p, err := birkhoff.Interpolate(lx, js, ys)
			if det.Sign() == 0 {
				if err == nil {
					// singular system: a returned polynomial must still reproduce the data to be acceptable
					if !reproduces(c, p.Coefficients(), xs, js, ys) {
						x.Failf("birkhoff/singular", "Birkhoff returned a polynomial for singular data xs=%v js=%v that does not reproduce it", xs, js)
					}
				}
				continue
			}
			if err != nil {
				x.Failf("birkhoff/err", "Birkhoff failed on a regular system xs=%v js=%v: %v", xs, js, err)
				continue
			}
			got := p.Coefficients()
			for i := 0; i < n; i++ {
				var g *big.Int = big.NewInt(0)
				if i < len(got) {
					g = conv.ToBig(got[i])
				}
				if g.Cmp(coeffs[i]) != 0 {
					x.Failf("birkhoff/value", "Birkhoff xs=%v js=%v coeffs=%v: coefficient %d = %v", xs, js, coeffs, i, g)
					break
				}
			}
		}
		x.Observe(n, det.Sign() != 0)
	}
}

func reproduces[F algebra.PrimeFieldElement[F]](c fieldCtx[F], got []F, xs []*big.Int, js []uint64, ys []F) bool {
	co := make([]*big.Int, len(got))
	for i := range got {
		co[i] = conv.ToBig(got[i])
	}
	for i := range xs {
		if linalg.EvalPolyDeriv(c.q, co, int(js[i]), xs[i]).Cmp(conv.ToBig(ys[i])) != 0 {
			return false
		}
	}
	return true
}

func TestCheck(t *testing.T) {
	engine.Rule("every matrix over the entry alphabet {0,1,q-1,2} of each listed shape x every right-hand side over the same alphabet (SolveRight/SolveLeft/Determinant/TryInv/Transpose/TryMul vs math/big Gaussian elimination); square products in every calling form (Mul, OtherOp, MulAssign, Square, SquareAssign, the receiver as its own operand directly and through a storage-sharing view): n=2 every ordered pair over the alphabet, n=3 every 0/1 matrix x 4 right operands, operands must stay unchanged; every node subset of size<=4 of {1,2,3,5,7,2^32+1,q-1} in ascending and descending order x every coefficient vector over {0,1,q-1} x 4 evaluation points (Lagrange, Vandermonde, in the exponent); every Birkhoff (x,j) pattern with n<=4 over x in {1,2,3,5}, j<n x every coefficient vector. A case is distinct by its (field, shape, matrix index) / (node set, coefficients) key; non-trivial = the library call was made and compared.")
	engine.Assume("math/big and the reference Gaussian elimination in /verif/mc/ref/linalg are correct", "operands outside the alphabets are not explored", "purego build of the library")
	kc := fieldCtx[*k256.Scalar]{"k256", k256.NewScalarField(), conv.K256N}
	bc := fieldCtx[*bls12381.Scalar]{"bls12381", bls12381.NewScalarField(), conv.BLS12381R}

	quickShapes := []shape{{1, 1, 4}, {1, 2, 4}, {2, 1, 4}, {2, 2, 4}, {2, 3, 3}, {3, 2, 3}, {3, 3, 3}, {2, 4, 3}, {4, 2, 3}}
	thoroughShapes := append(append([]shape{}, quickShapes...), shape{3, 3, 4}, shape{3, 4, 3}, shape{4, 3, 3})
	shapes := quickShapes
	if engine.Thorough() {
		shapes = thoroughShapes
	}
	engine.Explore(solveBody(kc, shapes), engine.Opts{Name: "matrix/k256", Budget: engine.Budget(4*time.Minute, 40*time.Minute)})
	engine.Explore(solveBody(bc, quickShapes[:7]), engine.Opts{Name: "matrix/bls12381", Budget: engine.Budget(3*time.Minute, 20*time.Minute)})
	engine.Explore(mulBody(kc), engine.Opts{Name: "mul/k256", Budget: engine.Budget(2*time.Minute, 10*time.Minute)})
	engine.Explore(squareBody(kc), engine.Opts{Name: "square-products/k256", Budget: engine.Budget(2*time.Minute, 10*time.Minute)})

	engine.Explore(interpBody(kc), engine.Opts{Name: "interp/k256", Budget: engine.Budget(3*time.Minute, 20*time.Minute)})
	engine.Explore(interpBody(bc), engine.Opts{Name: "interp/bls12381", Budget: engine.Budget(3*time.Minute, 20*time.Minute)})
	engine.Explore(exponentBody(), engine.Opts{Name: "exponent/k256", Budget: engine.Budget(3*time.Minute, 20*time.Minute)})
	engine.Explore(birkhoffBody(kc), engine.Opts{Name: "birkhoff/k256", Budget: engine.Budget(3*time.Minute, 20*time.Minute)})
}

// exponentBody: the same computations on group elements commute with lifting (k256).
func exponentBody() func(*engine.X) {
	c := fieldCtx[*k256.Scalar]{"k256", k256.NewScalarField(), conv.K256N}
	curve := k256.NewCurve()
	G := curve.Generator()
	nodes := nodeAlphabet(c.q)
	return func(x *engine.X) {
		switch x.Choose("kind", 3) {
		case 0: // Lagrange in the exponent
			mask := 1 + x.Choose("nodeset", (1<<len(nodes))-1)
			var ns []*big.Int
			for i := range nodes {
				if mask>>i&1 == 1 {
					ns = append(ns, nodes[i])
				}
			}
			if len(ns) > 3 {
				x.Trivial()
				return
			}
			k := len(ns)
			ln := make([]*k256.Scalar, k)
			for i := range ns {
				ln[i] = c.el(ns[i])
			}
			for ci := 0; ci < ipow(3, k); ci++ {
				coeffs := make([]*big.Int, k)
				t := ci
				for i := range coeffs {
					coeffs[i] = alpha(c.q, t%3)
					t /= 3
				}
				vals := make([]*k256.Point, k)
				for i := range ns {
					vals[i] = G.ScalarMul(c.el(linalg.EvalPoly(c.q, coeffs, ns[i])))
				}
				for _, at := range []*big.Int{big.NewInt(0), ns[0], big.NewInt(11)} {
					x.Case(fmt.Sprintf("lag/%d/%d/%v", mask, ci, at))
					got, err := lagrange.InterpolateInExponentAt(curve, ln, vals, c.el(at))
					want := G.ScalarMul(c.el(linalg.EvalPoly(c.q, coeffs, at)))
					if err != nil || !got.Equal(want) {
						x.Failf("exponent/lagrange", "InterpolateInExponentAt nodes=%v coeffs=%v at=%v: err=%v, does not commute with lifting", ns, coeffs, at, err)
					}
				}
			}
		case 1: // Birkhoff in the exponent
			maxN, xa := 3, 2
			if engine.Thorough() {
				xa = 3
			}
			n := 1 + x.Choose("n", maxN)
			xs := make([]*big.Int, n)
			js := make([]uint64, n)
			for i := 0; i < n; i++ {
				xs[i] = big.NewInt(int64(1 + x.Choose("x", xa)))
				js[i] = uint64(x.Choose("j", n))
			}
			lx := make([]*k256.Scalar, n)
			for i := range xs {
				lx[i] = c.el(xs[i])
			}
			for ci := 0; ci < ipow(3, n); ci++ {
				coeffs := make([]*big.Int, n)
				t := ci
				for i := range coeffs {
					coeffs[i] = alpha(c.q, t%3)
					t /= 3
				}
				ys := make([]*k256.Scalar, n)
				gy := make([]*k256.Point, n)
				for i := range ys {
					ys[i] = c.el(linalg.EvalPolyDeriv(c.q, coeffs, int(js[i]), xs[i]))
					gy[i] = G.ScalarMul(ys[i])
				}
				x.Case(fmt.Sprintf("birk/%v/%v/%d", xs, js, ci))
				p, err := birkhoff.Interpolate(lx, js, ys)
				pe, erre := birkhoff.InterpolateInExponent(lx, js, gy)
				if (err == nil) != (erre == nil) {
					x.Failf("exponent/birkhoff-existence", "Birkhoff scalar err=%v vs exponent err=%v for xs=%v js=%v", err, erre, xs, js)
					continue
				}
				if err != nil {
					continue
				}
				for _, at := range []int64{0, 1, 4} {
					a := c.el(big.NewInt(at))
					if !pe.Eval(a).Equal(G.ScalarMul(p.Eval(a))) {
						x.Failf("exponent/birkhoff", "Birkhoff in the exponent differs from lifted scalar result xs=%v js=%v coeffs=%v at=%d", xs, js, coeffs, at)
					}
				}
			}
		case 2: // Lift then LeftAction/RightAction == lift of the product
			type ms struct{ r, k, c int }
			shapes := []ms{{1, 1, 1}, {2, 2, 1}, {1, 2, 2}, {2, 3, 1}}
			if engine.Thorough() {
				shapes = append(shapes, ms{2, 2, 2})
			}
			sh := shapes[x.Choose("shape", len(shapes))]
			ai := x.Choose("A", ipow(3, sh.r*sh.k))
			A := nthMat(c.q, sh.r, sh.k, 3, ai)
			for bi := 0; bi < ipow(3, sh.k*sh.c); bi++ {
				B := nthMat(c.q, sh.k, sh.c, 3, bi)
				x.Case(fmt.Sprintf("lift/%v/%d/%d", sh, ai, bi))
				LB, err := mat.Lift(libMat(c, B), G)
				if err != nil {
					x.Failf("lift/err", "Lift: %v", err)
					continue
				}
				got, err := mat.LeftAction(libMat(c, A), LB)
				want, err2 := mat.Lift(libMat(c, A.Mul(B)), G)
				if err != nil || err2 != nil || !got.Equal(want) {
					x.Failf("lift/left", "LeftAction(A, Lift(B)) ≠ Lift(A·B) shape=%v A=%d B=%d err=%v/%v", sh, ai, bi, err, err2)
				}
				LA, _ := mat.Lift(libMat(c, A), G)
				got2, err := mat.RightAction(LA, libMat(c, B))
				if err != nil || !got2.Equal(want) {
					x.Failf("lift/right", "RightAction(Lift(A), B) ≠ Lift(A·B) shape=%v A=%d B=%d err=%v", sh, ai, bi, err)
				}
			}
		}
	}
}

// squareBody: the square-matrix products in every calling form, operands aliased or not. n=2: every ordered pair over
// the 4-letter alphabet; n=3: every matrix over {0,1} (2-letter alphabet) x 4 fixed right operands.
func squareBody[F algebra.PrimeFieldElement[F]](c fieldCtx[F]) func(*engine.X) {
	return func(x *engine.X) {
		n := 2 + x.Choose("n-2", 2)
		a := 4
		if n == 3 {
			a = 2
		}
		ai := x.Choose("A", ipow(a, n*n))
		A := nthMat(c.q, n, n, a, ai)
		sq := func(m *linalg.Mat) *mat.SquareMatrix[F] {
			s, err := libMat(c, m).AsSquare()
			if err != nil {
				panic(engine.HarnessError{Msg: "AsSquare on a square matrix: " + err.Error()})
			}
			return s
		}
		ref := func(s *mat.SquareMatrix[F]) *linalg.Mat { return refMat(c, s.AsRectangular()) }
		AA := A.Mul(A)
		key := fmt.Sprintf("%s/square/n%d/%d", c.name, n, ai)
		// squaring: every form, the receiver is its own operand
		x.Case(key + "/square")
		LA := sq(A)
		if !ref(LA.Square()).Equal(AA) || !ref(LA).Equal(A) {
			x.Failf("square/square", "%s: Square() wrong or receiver changed", key)
		}
		if s := sq(A); true {
			s.SquareAssign()
			if !ref(s).Equal(AA) {
				x.Failf("square/square-assign", "%s: SquareAssign() != A*A", key)
			}
		}
		if s := sq(A); true {
			s.MulAssign(s)
			if !ref(s).Equal(AA) {
				x.Failf("square/mul-assign-self", "%s: m.MulAssign(m) != A*A", key)
			}
		}
		if s := sq(A); true {
			view, err := s.AsRectangular().AsSquare() // documented to share storage with s
			if err != nil {
				panic(engine.HarnessError{Msg: err.Error()})
			}
			s.MulAssign(view)
			if !ref(s).Equal(AA) {
				x.Failf("square/mul-assign-view", "%s: m.MulAssign(view of m) != A*A", key)
			}
		}
		if !ref(sq(A).Mul(sq(A))).Equal(AA) || !ref(sq(A).OtherOp(sq(A))).Equal(AA) {
			x.Failf("square/mul", "%s: Mul / OtherOp of two equal matrices != A*A", key)
		}
		// products with other operands
		nb := ipow(a, n*n)
		var bs []int
		if n == 2 {
			for bi := 0; bi < nb; bi++ {
				bs = append(bs, bi)
			}
		} else {
			bs = []int{0, 1, nb / 2, nb - 1}
		}
		for _, bi := range bs {
			B := nthMat(c.q, n, n, a, bi)
			AB := A.Mul(B)
			x.Case(fmt.Sprintf("%s/%d", key, bi))
			LA, LB := sq(A), sq(B)
			if !ref(LA.Mul(LB)).Equal(AB) || !ref(LA).Equal(A) || !ref(LB).Equal(B) {
				x.Failf("square/mul", "%s x %d: Mul wrong or an operand changed", key, bi)
			}
			LA.MulAssign(LB)
			if !ref(LA).Equal(AB) || !ref(LB).Equal(B) {
				x.Failf("square/mul-assign", "%s x %d: MulAssign wrong or the operand changed", key, bi)
			}
		}
		x.Observe(n, ai, AA.Rank())
	}
}
