package c15

import (
	"math/big"

	"verifmc/ref/curve"
)

// Independent implementation of the BLS12-381 compressed point format (the "zcash" serialisation referenced by
// draft-irtf-cfrg-bls-signature, appendix A / pairing-friendly-curves appendix C):
//
//	G1: 48 bytes, big-endian x; G2: 96 bytes, big-endian x.c1 || x.c0.
//	top three bits of the first byte: 0x80 compressed form, 0x40 point at infinity, 0x20 y is the lexicographically
//	larger of the two roots (for Fp2: compare c1 first, then c0). Infinity: all remaining bits zero.
//
// Decoding additionally requires canonical coordinates (< p), a point on the curve and membership in the r-torsion
// subgroup, as KeyValidate / signature_to_point do.

const (
	flagCompressed = 0x80
	flagInfinity   = 0x40
	flagSign       = 0x20
)

func fpLarger(p, y *big.Int) bool { // y > p - y
	return y.Cmp(new(big.Int).Sub(p, y)) > 0
}

func fp2Larger(p *big.Int, y curve.Fp2) bool {
	if y.C1.Sign() != 0 {
		return fpLarger(p, y.C1)
	}
	return fpLarger(p, y.C0)
}

func g1Compress(pt curve.FpPoint) []byte {
	c := curve.BLS12381G1()
	out := make([]byte, 48)
	if pt.Inf {
		out[0] = flagCompressed | flagInfinity
		return out
	}
	pt.X.FillBytes(out)
	out[0] |= flagCompressed
	if fpLarger(c.F.Char(), pt.Y) {
		out[0] |= flagSign
	}
	return out
}

func g2Compress(pt curve.Fp2Point) []byte {
	c := curve.BLS12381G2()
	out := make([]byte, 96)
	if pt.Inf {
		out[0] = flagCompressed | flagInfinity
		return out
	}
	pt.X.C1.FillBytes(out[:48])
	pt.X.C0.FillBytes(out[48:])
	out[0] |= flagCompressed
	if fp2Larger(c.F.Char(), pt.Y) {
		out[0] |= flagSign
	}
	return out
}

func restZero(b []byte) bool {
	if b[0]&0x1f != 0 {
		return false
	}
	for _, v := range b[1:] {
		if v != 0 {
			return false
		}
	}
	return true
}

// g1Decompress returns (point, true) for a valid encoding of an element of G1 (the identity included).
func g1Decompress(b []byte) (curve.FpPoint, bool) {
	c := curve.BLS12381G1()
	if len(b) != 48 || b[0]&flagCompressed == 0 {
		return c.Identity(), false
	}
	if b[0]&flagInfinity != 0 {
		return c.Identity(), b[0]&flagSign == 0 && restZero(b)
	}
	xb := append([]byte{}, b...)
	xb[0] &= 0x1f
	x := new(big.Int).SetBytes(xb)
	p := c.F.Char()
	if x.Cmp(p) >= 0 {
		return c.Identity(), false
	}
	pt, npt, ok := c.LiftX(x)
	if !ok {
		return c.Identity(), false
	}
	if fpLarger(p, pt.Y) != (b[0]&flagSign != 0) {
		pt = npt
	}
	if !c.InSubgroup(pt) {
		return pt, false
	}
	return pt, true
}

func g2Decompress(b []byte) (curve.Fp2Point, bool) {
	c := curve.BLS12381G2()
	if len(b) != 96 || b[0]&flagCompressed == 0 {
		return c.Identity(), false
	}
	if b[0]&flagInfinity != 0 {
		return c.Identity(), b[0]&flagSign == 0 && restZero(b)
	}
	xb := append([]byte{}, b...)
	xb[0] &= 0x1f
	x1 := new(big.Int).SetBytes(xb[:48])
	x0 := new(big.Int).SetBytes(xb[48:])
	p := c.F.Char()
	if x1.Cmp(p) >= 0 || x0.Cmp(p) >= 0 {
		return c.Identity(), false
	}
	pt, npt, ok := c.LiftX(curve.Fp2{C0: x0, C1: x1})
	if !ok {
		return c.Identity(), false
	}
	if fp2Larger(p, pt.Y) != (b[0]&flagSign != 0) {
		pt = npt
	}
	if !c.InSubgroup(pt) {
		return pt, false
	}
	return pt, true
}
