package c15

import (
	"bytes"
	"encoding/csv"
	"encoding/hex"
	"encoding/json"
	"fmt"
	"os"
	"path/filepath"
	"sort"
	"strings"

	"github.com/bronlabs/bron-crypto/pkg/base/curves/k256"
	"github.com/bronlabs/bron-crypto/pkg/base/curves/pairable/bls12381"
	"github.com/bronlabs/bron-crypto/pkg/signatures/bls"
	"github.com/bronlabs/bron-crypto/pkg/signatures/schnorrlike/bip340"

	"verifmc/engine"
	"verifmc/ref/sig"
)

// Published vectors that ship with the repository, copied to /verif/kat and replayed through the PUBLIC API:
//   - kat/bip340/test-vectors.csv: the BIP-340 table (rows 0-18) embedded in bip340_test.go
//   - kat/bls/{sign,verify,aggregate,aggregate_verify,batch_verify}/*.json: the Ethereum consensus-spec BLS vectors
//     (minimal-pubkey-size, proof-of-possession ciphersuite tag) under pkg/signatures/bls/vectors

func katDir() string {
	d := os.Getenv("VERIF_DIR")
	if d == "" {
		d = "/verif"
	}
	return filepath.Join(d, "kat")
}

type katCase struct {
	name string
	run  func(x *engine.X, name string)
}

func unhex(s string) []byte {
	b, err := hex.DecodeString(strings.TrimPrefix(s, "0x"))
	if err != nil {
		panic(engine.HarnessError{Msg: "bad hex in KAT: " + s})
	}
	return b
}

func loadKATs() []katCase {
	var out []katCase
	// BIP-340
	f, err := os.Open(filepath.Join(katDir(), "bip340", "test-vectors.csv"))
	if err != nil {
		engine.HarnessFail("KAT file missing: %v", err)
		return nil
	}
	rd := csv.NewReader(f)
	rd.Comment = '#'
	rd.FieldsPerRecord = -1
	rows, err := rd.ReadAll()
	f.Close()
	if err != nil || len(rows) != 20 {
		engine.HarnessFail("BIP-340 KAT file: %v rows=%d", err, len(rows))
		return nil
	}
	for _, row := range rows[1:] {
		row := row
		out = append(out, katCase{"bip340/" + row[0], func(x *engine.X, name string) { katBIP340(x, name, row) }})
	}
	// BLS
	for _, kind := range []string{"sign", "verify", "aggregate", "aggregate_verify", "batch_verify"} {
		files, err := filepath.Glob(filepath.Join(katDir(), "bls", kind, "*.json"))
		if err != nil || len(files) == 0 {
			engine.HarnessFail("BLS KAT directory %s empty: %v", kind, err)
			return nil
		}
		sort.Strings(files)
		for _, fn := range files {
			fn, kind := fn, kind
			out = append(out, katCase{"bls/" + kind + "/" + strings.TrimSuffix(filepath.Base(fn), ".json"), func(x *engine.X, name string) {
				data, err := os.ReadFile(fn)
				if err != nil {
					panic(engine.HarnessError{Msg: err.Error()})
				}
				katBLS(x, name, kind, data)
			}})
		}
	}
	return out
}

func katBIP340(x *engine.X, name string, row []string) {
	skB, pkB, auxB, msg, sigB := unhex(row[1]), unhex(row[2]), unhex(row[3]), unhex(row[4]), unhex(row[5])
	want := row[6] == "TRUE"
	if ref := sig.BIP340Verify(pkB, msg, sigB); ref != want {
		engine.HarnessFail("reference BIP-340 verifier disagrees with the published vector %s", name)
	}
	// signing vectors
	if len(skB) > 0 {
		d, err := k256.NewScalarField().FromBytes(skB)
		if err != nil {
			x.Failf("kat/bip340/sk", "%s: secret key refused: %v", name, err)
			return
		}
		sk, err := bip340.NewPrivateKey(d)
		if err != nil {
			x.Failf("kat/bip340/sk", "%s: %v", name, err)
			return
		}
		var aux [32]byte
		copy(aux[:], auxB)
		signer, err := bip340.NewSchemeWithAux(aux).Signer(sk)
		if err != nil {
			panic(engine.HarnessError{Msg: err.Error()})
		}
		sg, err := signer.Sign(msg)
		if err != nil {
			x.Failf("kat/bip340/sign", "%s: Sign failed: %v", name, err)
			return
		}
		got, _ := bip340.SerializeSignature(sg)
		if !bytes.Equal(got, sigB) {
			x.Failf("kat/bip340/signature", "%s: signature %x, published %x", name, got, sigB)
		}
		pkGot, _ := bip340.SerializePublicKey(sk.PublicKey())
		if !bytes.Equal(pkGot, pkB) {
			x.Failf("kat/bip340/pubkey", "%s: public key %x, published %x", name, pkGot, pkB)
		}
	}
	// verification through the byte decoders
	lib := false
	why := ""
	pk, err := bip340.NewPublicKeyFromBytes(pkB)
	if err != nil {
		why = "NewPublicKeyFromBytes: " + errStr(err)
	} else if sg, err := bip340.NewSignatureFromBytes(sigB); err != nil {
		why = "NewSignatureFromBytes: " + errStr(err)
	} else {
		v, _ := bip340.NewSchemeWithAux([32]byte{}).Verifier()
		err := v.Verify(sg, pk, msg)
		lib, why = err == nil, errStr(err)
	}
	if lib != want {
		x.Failf("kat/bip340/verify", "%s: library accept=%v (%s), published result %v (%s)", name, lib, why, want, row[7])
	}
	x.Observe(name, lib)
}

type (
	g1 = *bls12381.PointG1
	f1 = *bls12381.BaseFieldElementG1
	g2 = *bls12381.PointG2
	f2 = *bls12381.BaseFieldElementG2
)

func katBLS(x *engine.X, name, kind string, data []byte) {
	fam := blsFamily()
	dst := blsDST(true, bls.POP) // the vectors were generated for the proof-of-possession ciphersuite
	scheme, err := bls.NewShortKeyScheme(fam, bls.Basic)
	if err != nil {
		panic(engine.HarnessError{Msg: err.Error()})
	}
	verifier := func() *bls.Verifier[g1, f1, g2, f2, gtE, scE] {
		v, err := scheme.Verifier(bls.VerifyWithCustomDST[g1](dst))
		if err != nil {
			panic(engine.HarnessError{Msg: err.Error()})
		}
		return v
	}
	G1, G2 := fam.SourceSubGroup(), fam.TwistedSubGroup()
	type sigT = bls.Signature[g2, f2, g1, f1, gtE, scE]
	type pkT = bls.PublicKey[g1, f1, g2, f2, gtE, scE]
	decodeSigs := func(hexes []string) ([]*sigT, string) {
		var out []*sigT
		for _, h := range hexes {
			s, err := bls.NewSignatureFromBytes(G2, unhex(h), nil)
			if err != nil {
				return nil, "NewSignatureFromBytes: " + errStr(err)
			}
			out = append(out, s)
		}
		return out, ""
	}
	decodeKeys := func(hexes []string) ([]*pkT, string) {
		var out []*pkT
		for _, h := range hexes {
			k, err := bls.NewPublicKeyFromBytes(G1, unhex(h))
			if err != nil {
				return nil, "NewPublicKeyFromBytes: " + errStr(err)
			}
			out = append(out, k)
		}
		return out, ""
	}
	switch kind {
	case "sign":
		var v struct {
			Input struct {
				PrivKey string `json:"privkey"`
				Message string `json:"message"`
			} `json:"input"`
			Output *string `json:"output"`
		}
		if err := json.Unmarshal(data, &v); err != nil {
			panic(engine.HarnessError{Msg: err.Error()})
		}
		sk, err := bls.NewPrivateKeyFromBytes(G1, unhex(v.Input.PrivKey))
		if v.Output == nil {
			if err == nil {
				if s, _ := scheme.Signer(sk, bls.SignWithCustomDST[g1](dst)); s != nil {
					if _, err := s.Sign(unhex(v.Input.Message)); err == nil {
						x.Failf("kat/bls/sign", "%s: signing succeeded where the vector expects a failure", name)
					}
				}
			}
			x.Observe(name, "refused")
			return
		}
		if err != nil {
			x.Failf("kat/bls/sign", "%s: private key refused: %v", name, err)
			return
		}
		signer, err := scheme.Signer(sk, bls.SignWithCustomDST[g1](dst))
		if err != nil {
			panic(engine.HarnessError{Msg: err.Error()})
		}
		sg, err := signer.Sign(unhex(v.Input.Message))
		if err != nil || !bytes.Equal(sg.Bytes(), unhex(*v.Output)) {
			x.Failf("kat/bls/sign", "%s: Sign err=%v, signature differs from the published one", name, err)
		}
		x.Observe(name, "signed")
	case "verify":
		var v struct {
			Input struct {
				PubKey    string `json:"pubkey"`
				Message   string `json:"message"`
				Signature string `json:"signature"`
			} `json:"input"`
			Output bool `json:"output"`
		}
		if err := json.Unmarshal(data, &v); err != nil {
			panic(engine.HarnessError{Msg: err.Error()})
		}
		lib, why := false, ""
		if ks, w := decodeKeys([]string{v.Input.PubKey}); w != "" {
			why = w
		} else if ss, w := decodeSigs([]string{v.Input.Signature}); w != "" {
			why = w
		} else {
			err := verifier().Verify(ss[0], ks[0], unhex(v.Input.Message))
			lib, why = err == nil, errStr(err)
		}
		if lib != v.Output {
			x.Failf("kat/bls/verify", "%s: library accept=%v (%s), published %v", name, lib, why, v.Output)
		}
		x.Observe(name, lib)
	case "aggregate":
		var v struct {
			Input  []string `json:"input"`
			Output *string  `json:"output"`
		}
		if err := json.Unmarshal(data, &v); err != nil {
			panic(engine.HarnessError{Msg: err.Error()})
		}
		ss, why := decodeSigs(v.Input)
		infinityInput := false
		for _, h := range v.Input {
			b := unhex(h)
			infinityInput = infinityInput || (len(b) > 0 && b[0]&0x40 != 0)
		}
		if why != "" {
			// the library documents that identity signatures are never constructible (NewSignature); the one vector whose
			// input is the point at infinity is therefore refused at decoding
			if !infinityInput {
				x.Failf("kat/bls/aggregate", "%s: input signature refused: %s", name, why)
			}
			x.Observe(name, "refused-infinity")
			return
		}
		agg, err := scheme.AggregateSignatures(ss...)
		if v.Output == nil {
			if err == nil {
				x.Failf("kat/bls/aggregate", "%s: aggregation of an empty list succeeded", name)
			}
			x.Observe(name, "refused-empty")
			return
		}
		if err != nil || !bytes.Equal(agg.Bytes(), unhex(*v.Output)) {
			x.Failf("kat/bls/aggregate", "%s: AggregateSignatures err=%v, result differs from the published aggregate", name, err)
		}
		x.Observe(name, "aggregated")
	case "aggregate_verify":
		var v struct {
			Input struct {
				PubKeys   []string `json:"pubkeys"`
				Messages  []string `json:"messages"`
				Signature string   `json:"signature"`
			} `json:"input"`
			Output bool `json:"output"`
		}
		if err := json.Unmarshal(data, &v); err != nil {
			panic(engine.HarnessError{Msg: err.Error()})
		}
		lib, why := false, ""
		if ks, w := decodeKeys(v.Input.PubKeys); w != "" {
			why = w
		} else if ss, w := decodeSigs([]string{v.Input.Signature}); w != "" {
			why = w
		} else {
			msgs := make([][]byte, len(v.Input.Messages))
			for i, m := range v.Input.Messages {
				msgs[i] = unhex(m)
			}
			err := verifier().AggregateVerify(ss[0], ks, msgs)
			lib, why = err == nil, errStr(err)
		}
		if lib != v.Output {
			x.Failf("kat/bls/aggregate_verify", "%s: library accept=%v (%s), published %v", name, lib, why, v.Output)
		}
		x.Observe(name, lib)
	case "batch_verify":
		var v struct {
			Input struct {
				PubKeys    []string `json:"pubkeys"`
				Messages   []string `json:"messages"`
				Signatures []string `json:"signatures"`
			} `json:"input"`
			Output bool `json:"output"`
		}
		if err := json.Unmarshal(data, &v); err != nil {
			panic(engine.HarnessError{Msg: err.Error()})
		}
		lib, why := false, ""
		if ks, w := decodeKeys(v.Input.PubKeys); w != "" {
			why = w
		} else if ss, w := decodeSigs(v.Input.Signatures); w != "" {
			why = w
		} else if len(ks) == len(ss) && len(ss) == len(v.Input.Messages) && len(ss) > 0 {
			lib = true
			for i := range ss {
				if err := verifier().Verify(ss[i], ks[i], unhex(v.Input.Messages[i])); err != nil {
					lib, why = false, fmt.Sprintf("signature %d: %s", i, errStr(err))
				}
			}
		}
		if lib != v.Output {
			x.Failf("kat/bls/batch_verify", "%s: every-signature-verifies=%v (%s), published %v", name, lib, why, v.Output)
		}
		x.Observe(name, lib)
	}
}

func runKAT() {
	cases := loadKATs()
	if len(cases) == 0 {
		return
	}
	s := engine.Explore(func(x *engine.X) {
		c := cases[x.Choose("vector", len(cases))]
		x.Case("kat/" + c.name)
		c.run(x, c.name)
	}, engine.Opts{Name: "kat", Budget: budget(3, 10)})
	s.Note("%d published vectors replayed (19 BIP-340 rows; BLS sign/verify/aggregate/aggregate_verify/batch_verify files)", len(cases))
}
