// C02 — exactly the qualified sets can reconstruct; unqualified sets learn nothing; shares are linear.
//
// Space: every policy of the shared catalogue (verifmc/catalog: all threshold (t,n), unanimity, every antichain CNF,
// every hierarchical level layout, every <=2-level gate tree with repeated leaves) x identifier assignment x EVERY
// subset of shareholders x scheme (KW/MSP, Feldman, Pedersen, Shamir, additive, ISN, Tassa where the scheme
// supports the family) x secret in {0,1,q-1,mid} x dealer randomness in {all-zero, all-one, seed-derived} x field.
// Oracle: ref/policy truth table (family definitions), ref/linalg rank test on the matrix read out of the library,
// and the constructive privacy witness (see dealBody).
package c02

import (
	"fmt"
	"math/big"
	"slices"
	"sort"
	"testing"
	"time"

	"github.com/bronlabs/bron-crypto/pkg/base/algebra"
	"github.com/bronlabs/bron-crypto/pkg/base/curves/edwards25519"
	"github.com/bronlabs/bron-crypto/pkg/base/curves/k256"
	"github.com/bronlabs/bron-crypto/pkg/base/curves/pairable/bls12381"
	ds "github.com/bronlabs/bron-crypto/pkg/base/datastructures"
	"github.com/bronlabs/bron-crypto/pkg/mpc/sharing"
	"github.com/bronlabs/bron-crypto/pkg/mpc/sharing/accessstructures"
	"github.com/bronlabs/bron-crypto/pkg/mpc/sharing/accessstructures/cnf"
	"github.com/bronlabs/bron-crypto/pkg/mpc/sharing/accessstructures/hierarchical"
	"github.com/bronlabs/bron-crypto/pkg/mpc/sharing/scheme/kw"
	"github.com/bronlabs/bron-crypto/pkg/mpc/sharing/scheme/tassa"

	"verifmc/catalog"
	"verifmc/engine"
	"verifmc/ref/conv"
	"verifmc/ref/policy"
)

type (
	edwardsScalar = edwards25519.Scalar
	blsScalar     = bls12381.Scalar
)

func TestMain(m *testing.M) { engine.Main(m, "C02", "exploration") }

// keyCNFDummy: a CNF policy in which some shareholder belongs to every maximal unqualified set. cnf.InducedMSP gives
// that shareholder no row, so MSP.Accepts / CanReconstruct / Reconstruct reject every qualified set that lists it.
const keyCNFDummy = "cnf/dummy-party"

// dummyParties: parties contained in every maximal unqualified set (their presence never matters).
func dummyParties(p *policy.Policy) uint64 {
	d := p.Full()
	for _, u := range p.MaximalUnqualified() {
		d &= u
	}
	return d
}

func noSingletonQualified(p *policy.Policy) bool {
	for i := 0; i < p.N; i++ {
		if p.Qualified(1 << uint(i)) {
			return false
		}
	}
	return true
}

func idSetEqual(s ds.Set[sharing.ID], ids []sharing.ID) bool {
	if s.Size() != len(ids) {
		return false
	}
	for _, id := range ids {
		if !s.Contains(id) {
			return false
		}
	}
	return true
}

func maskOfIDs(ids []sharing.ID, set []sharing.ID) (uint64, bool) {
	var m uint64
	for _, id := range set {
		i := slices.Index(ids, id)
		if i < 0 {
			return 0, false
		}
		m |= 1 << uint(i)
	}
	return m, true
}

// ---------------------------------------------------------------------------------------------
// section "policy": oracle (a) — IsQualified == truth table for every subset, maximal unqualified sets, universe

func policyBody(cases []pcase) func(*engine.X) {
	return func(x *engine.X) {
		pc := cases[x.Choose("case", len(cases))]
		p, ids := pc.e.P, pc.a.IDs
		key := pc.key()
		ac, err := catalog.Build(p, ids)
		if err != nil {
			x.Failf("policy/constructor", "%s: constructor refused a catalogue policy%s", key, errLine(err))
			return
		}
		if !idSetEqual(ac.Shareholders(), ids) {
			x.Failf("policy/shareholders", "%s: Shareholders() is not the identifier set %v", key, ids)
		}
		var alt accessstructures.Monotone
		if p.Kind == policy.BoolExpr {
			// the same tree through the And / Or shorthands
			alt, err = catalog.BuildBoolExpr(p, ids, true)
			if err != nil {
				x.Failf("policy/constructor", "%s: And/Or shorthand tree refused%s", key, errLine(err))
				return
			}
		}
		nq := 0
		for a := uint64(0); a <= p.Full(); a++ {
			want := p.Qualified(a)
			sub := catalog.Subset(ids, a)
			x.Case(fmt.Sprintf("%s/%d", key, a))
			if got := ac.IsQualified(sub...); got != want {
				x.Failf("policy/isqualified/"+p.Kind.String(), "%s: IsQualified(%v) = %v, the definition says %v", key, sub, got, want)
			}
			if want {
				nq++
			}
			if len(sub) > 0 {
				// the same set listed with a repeated member and in descending order
				rep := append(slices.Clone(sub), sub[0])
				slices.Reverse(rep)
				if got := ac.IsQualified(rep...); got != want {
					x.Failf("policy/isqualified-multiset/"+p.Kind.String(), "%s: IsQualified(%v) = %v, the definition says %v for that set", key, rep, got, want)
				}
			}
			if alt != nil && alt.IsQualified(sub...) != want {
				x.Failf("policy/isqualified/shorthand", "%s: And/Or shorthand tree: IsQualified(%v) != %v", key, sub, want)
			}
		}
		// maximal unqualified sets (brute-force helper paths are defined for identifiers <= 64 only)
		if pc.a.Max64 || p.Kind == policy.Threshold || p.Kind == policy.Unanimity {
			want := p.MaximalUnqualified()
			if len(want) == 1 && want[0] == 0 {
				want = nil // every single party is qualified: only the empty set is unqualified, and it is not a clause
			}
			var got []uint64
			bad := false
			for s := range ac.MaximalUnqualifiedSetsIter() {
				m, ok := maskOfIDs(ids, s.List())
				if !ok {
					bad = true
				}
				got = append(got, m)
			}
			sort.Slice(got, func(i, j int) bool { return got[i] < got[j] })
			if bad || !slices.Equal(got, want) {
				x.Failf("policy/mus/"+p.Kind.String(), "%s: MaximalUnqualifiedSetsIter yields masks %v, the truth table has %v", key, got, want)
			}
			// conversion to CNF keeps the policy. The CNF universe is the union of the maximal unqualified sets, so the
			// conversion is only defined when no shareholder is qualified on its own.
			if !noSingletonQualified(p) {
				// outside the domain
			} else if c, err := cnf.ConvertToCNF(ac); err != nil {
				x.Failf("policy/tocnf", "%s: ConvertToCNF failed%s", key, errLine(err))
			} else {
				for a := uint64(0); a <= p.Full(); a++ {
					if c.IsQualified(catalog.Subset(ids, a)...) != p.Qualified(a) {
						x.Failf("policy/tocnf", "%s: ConvertToCNF changes the answer for subset mask %d", key, a)
						break
					}
				}
			}
		}
		x.Observe(key, nq)
	}
}

// ---------------------------------------------------------------------------------------------
// section "refusals": oracle (f)

type refusalCase struct {
	name string
	run  func(x *engine.X)
}

func refusalCases[F algebra.PrimeFieldElement[F]](c fctx[F], maxLeaves int, hier []catalog.Entry) []refusalCase {
	var out []refusalCase
	for _, e := range catalog.BoolExprsRefused(maxLeaves, 4) {
		e := e
		out = append(out, refusalCase{"dup/" + e.Name, func(x *engine.X) {
			for _, a := range catalog.IDAssignments(e.P.N) {
				x.Case("dup/" + e.Name + "/" + a.Name)
				if _, err := catalog.BuildBoolExpr(e.P, a.IDs, false); err == nil {
					x.Failf("refusal/boolexpr-duplicate-siblings", "%s/%s: a gate with two leaf children of the same shareholder was accepted", e.Name, a.Name)
				}
			}
			x.Observe("refused")
		}})
	}
	// hierarchical identifier order: descending identifiers with >= 2 levels must be refused by every
	// constructor that documents the condition
	for _, e := range hier {
		if len(e.P.Levels) < 2 {
			continue
		}
		e := e
		out = append(out, refusalCase{"hier-order/" + e.Name, func(x *engine.X) {
			for _, a0 := range catalog.IDAssignments(e.P.N) {
				for _, a := range []catalog.IDAssignment{a0.Reversed(), swapFirstLast(a0.Sorted())} {
					if e.P.HierarchicalIDsIncrease(catalog.U64(a.IDs)) {
						continue
					}
					x.Case("hier-order/" + e.Name + "/" + a.Name)
					ac, err := catalog.BuildHierarchical(e.P, a.IDs)
					if err != nil {
						continue // refusing earlier is fine too
					}
					if err := hierarchical.CheckConstraints(c.field, ac); err == nil {
						x.Failf("refusal/hierarchical-id-order", "%s/%s: CheckConstraints accepts identifiers that do not increase from level to level", e.Name, a.Name)
					}
					if _, err := accessstructures.InducedMSP(c.field, ac); err == nil {
						x.Failf("refusal/hierarchical-id-order", "%s/%s: InducedMSP accepts identifiers that do not increase from level to level", e.Name, a.Name)
					}
					if _, err := kw.NewScheme(c.field, ac); err == nil {
						x.Failf("refusal/hierarchical-id-order", "%s/%s: kw.NewScheme accepts identifiers that do not increase from level to level", e.Name, a.Name)
					}
					if _, err := tassa.NewScheme(ac, c.field); err == nil {
						x.Failf("refusal/hierarchical-id-order", "%s/%s: tassa.NewScheme accepts identifiers that do not increase from level to level", e.Name, a.Name)
					}
				}
			}
			x.Observe("refused")
		}})
	}
	// a CNF with a single maximal unqualified set qualifies nobody: there is nothing to share
	for n := 2; n <= 4; n++ {
		n := n
		out = append(out, refusalCase{fmt.Sprintf("cnf-nothing-qualified/%d", n), func(x *engine.X) {
			p := &policy.Policy{Kind: policy.CNF, N: n, MUS: []uint64{(1 << uint(n)) - 1}}
			ids := catalog.IDAssignments(n)[0].IDs
			x.Case(p.String())
			ac, err := catalog.BuildCNF(p, ids)
			if err != nil {
				return
			}
			for a := uint64(0); a <= p.Full(); a++ {
				if ac.IsQualified(catalog.Subset(ids, a)...) {
					x.Failf("policy/isqualified/cnf", "%s: IsQualified(mask %d) is true although every set is inside the single maximal unqualified set", p, a)
				}
			}
			s, err := kw.NewScheme(c.field, ac)
			if err != nil {
				return
			}
			if _, err := s.Deal(kw.NewSecret(c.el(big.NewInt(5))), c.reader("nothing")); err == nil {
				x.Failf("refusal/cnf-nothing-qualified", "%s: a secret was dealt under a policy with no qualified set", p)
			}
		}})
	}
	return out
}

func swapFirstLast(a catalog.IDAssignment) catalog.IDAssignment {
	ids := slices.Clone(a.IDs)
	ids[0], ids[len(ids)-1] = ids[len(ids)-1], ids[0]
	return catalog.IDAssignment{Name: a.Name + "-swapped", IDs: ids}
}

// ---------------------------------------------------------------------------------------------
// section "msp/<field>": oracle (b) — Accepts == truth table == rank test on the matrix read out of the library

func mspBody[F algebra.PrimeFieldElement[F]](c fctx[F], cases []pcase) func(*engine.X) {
	return func(x *engine.X) {
		pc := cases[x.Choose("case", len(cases))]
		p, ids, key := pc.e.P, pc.a.IDs, c.name+"/"+pc.key()
		ac, err := catalog.Build(p, ids)
		if err != nil {
			x.Failf("policy/constructor", "%s: constructor refused a catalogue policy%s", key, errLine(err))
			return
		}
		m, err := accessstructures.InducedMSP(c.field, ac)
		if p.Kind == policy.Hierarchical {
			mustAccept, mustRefuse := hierExpect(p, ids, c.q)
			x.Case(key + "/admission")
			if err != nil {
				if mustAccept {
					x.Failf("msp/hierarchical-refused", "%s: InducedMSP refused a hierarchical policy that satisfies the identifier-order and field-size conditions%s", key, errLine(err))
				} else {
					x.Observe(key, "refused-as-documented", mustRefuse)
				}
				return
			}
			if mustRefuse {
				x.Failf(fieldSizeKey(ids), "%s: InducedMSP accepted a hierarchical policy that violates Tassa's condition (largest identifier %d, largest threshold %d)", key, slices.Max(ids), p.MaxThreshold())
				return
			}
		} else if err != nil {
			x.Failf("msp/induce", "%s: InducedMSP failed on a catalogue policy%s", key, errLine(err))
			return
		}
		v := readMSP(c.q, m, ids)
		for i, r := range v.rho {
			if r < 0 {
				x.Failf("msp/row-label", "%s: row %d is labelled with an identifier that is not a shareholder", key, i)
				return
			}
		}
		dummies := dummyParties(p)
		var noRows uint64
		for party, rows := range v.rowsOf {
			if len(rows) == 0 {
				noRows |= 1 << uint(party)
			}
		}
		if v.M.C == 1 {
			// one-column programme (every single party is qualified): dealing over it is refused by design
			x.Case(key + "/one-column")
			s, err := kw.NewInducedScheme(m)
			if err == nil {
				_, err = s.Deal(kw.NewSecret(c.el(big.NewInt(7))), c.reader("onecol"))
			}
			if err == nil {
				x.Failf("refusal/one-column", "%s: dealing over a one-column span programme was not refused", key)
			}
		}
		nAcc := 0
		for a := uint64(0); a <= p.Full(); a++ {
			want := p.Qualified(a)
			sub := catalog.Subset(ids, a)
			x.Case(fmt.Sprintf("%s/%d", key, a))
			rows := v.rowsFor(a)
			MA := v.M.SubRows(rows)
			span := MA.SpansE0()
			acc := m.Accepts(sub...)
			fk := "msp/accepts/" + p.Kind.String()
			if a&noRows != 0 && a&noRows&^dummies == 0 && p.Kind == policy.CNF {
				fk = keyCNFDummy // the set contains a party that sits in every maximal unqualified set and got no row
			}
			if acc != want {
				x.Failf(fk, "%s: MSP.Accepts(%v) = %v but the policy says %v (rank test on the library's matrix: %v)", key, sub, acc, want, span)
			}
			if span != want {
				x.Failf("msp/span/"+p.Kind.String(), "%s: e0 in the row span of the rows of %v is %v but the policy says %v — the induced matrix encodes a different access structure", key, sub, span, want)
			}
			rv, err := m.ReconstructionVector(sub...)
			if (err == nil) != acc {
				x.Failf("msp/reconvector-existence", "%s: ReconstructionVector(%v) err=%v but Accepts=%v", key, sub, err != nil, acc)
			}
			if err != nil {
				continue
			}
			nAcc++
			lam := refMat(c.q, rv)
			if lam.R != len(rows) || lam.C != 1 {
				x.Failf("msp/reconvector-shape", "%s: ReconstructionVector(%v) is %dx%d for %d selected rows", key, sub, lam.R, lam.C, len(rows))
				continue
			}
			prod := lam.Transpose().Mul(MA) // 1 x D
			good := prod.A[0][0].Cmp(big.NewInt(1)) == 0
			for j := 1; j < prod.C; j++ {
				good = good && prod.A[0][j].Sign() == 0
			}
			if !good {
				x.Failf("msp/reconvector-value", "%s: ReconstructionVector(%v) · M_A != e0 (re-multiplied with math/big)", key, sub)
			}
			// per-holder coefficients are the vector's entries at that holder's rows (huge policies: one holder per
			// subset, rotating, instead of all)
			holders := policy.Members(a)
			if huge(pc.e) {
				holders = holders[int(a)%len(holders):][:1]
			}
			for _, party := range holders {
				co, err := m.ReconstructionCoefficients(ids[party], sub...)
				if err != nil {
					x.Failf("msp/reconcoeff", "%s: ReconstructionCoefficients(%d, %v) failed on an accepted set%s", key, ids[party], sub, errLine(err))
					continue
				}
				var want []*big.Int
				for _, r := range v.rowsOf[party] {
					want = append(want, lam.A[slices.Index(rows, r)][0])
				}
				if !eqBigs(bigs(co), want) {
					x.Failf("msp/reconcoeff", "%s: ReconstructionCoefficients(%d, %v) differ from the reconstruction vector's entries", key, ids[party], sub)
				}
			}
		}
		x.Observe(key, v.M.R, v.M.C, nAcc, noRows)
	}
}

// ---------------------------------------------------------------------------------------------

func buildCases(es []catalog.Entry, filter func(catalog.Entry, catalog.IDAssignment) bool) []pcase {
	var out []pcase
	for _, e := range es {
		if e.Refusal == catalog.DuplicateSiblingLeaves {
			continue
		}
		for _, a := range catalog.AssignmentsFor(e) {
			if filter == nil || filter(e, a) {
				out = append(out, pcase{e, a})
			}
		}
	}
	return out
}

func kinds(es []catalog.Entry, ks ...policy.Kind) []catalog.Entry {
	var out []catalog.Entry
	for _, e := range es {
		if slices.Contains(ks, e.P.Kind) {
			out = append(out, e)
		}
	}
	return out
}

func TestCheck(t *testing.T) {
	engine.Rule("catalogue policy x identifier assignment (ord {1..n}, sparse unsorted <=64, large up to 2^64-1; CNF and the bit-set helper paths with identifiers <=64 only; hierarchical with identifiers sorted by level) x EVERY subset of the shareholders (2^n inner cases) x scheme x secret {0,1,q-1,mid} x dealer randomness {all-zero, all-one, seed-derived} (full secret x randomness cross on the ord assignment, mid/seeded on the others) x field. A case is distinct by (section, field, policy, assignment, secret, randomness, subset mask); non-trivial = the library call was made and compared with the reference (refused-as-documented hierarchical configurations are counted trivial).")
	engine.Assume(
		"math/big, ref/linalg (Gaussian elimination) and ref/policy (family definitions, enumerators self-tested against the Dedekind numbers) are correct",
		"field orders are typed in from the standards; identifiers are mapped to residues by math/big",
		"the harness feeds chosen 'random' field elements to the library's samplers through the calibrated byte layout of field.Random; the dealer state actually used is read back from the revealed dealer function and every share is recomputed from it in the reference",
		"privacy is witnessed for the secret alphabet: for every unqualified set A and every other alphabet secret s' an alternative dealer state with secret s' that gives A identical shares is solved for in the reference and pushed through the library's own deterministic dealer; (b) shows e0 is outside the row span of A exactly over the real field, which is the statement for all secrets",
		"Shamir/Tassa samplers never produce a zero leading coefficient (by design); when the witness polynomial would need one this is counted and, for Shamir, witnessed through the polynomial dealer function instead of Deal",
		"ConvertShareToAdditive over an UNqualified quorum is required to fail only for the schemes that document it (KW, Feldman, Pedersen, Tassa); Shamir and ISN do not check and are only observed",
		"purego build of the library",
	)
	tier := engine.Tier()
	std := catalog.Standard(tier)
	kc := newFctx("k256", k256.NewScalarField(), conv.K256N)
	ec := newFctx("ed25519", edwards25519.NewScalarField(), conv.Ed25519L)
	bc := newFctx("bls12381", bls12381.NewScalarField(), conv.BLS12381R)

	all := buildCases(std, nil)
	fmt.Printf("[C02] catalogue (%s): %d policies, %d (policy, assignment) pairs\n", tier, len(std), len(all))

	engine.Explore(policyBody(all), engine.Opts{Name: "policy", Budget: engine.Budget(2*time.Minute, 15*time.Minute)})

	leaves := 3
	if engine.Thorough() {
		leaves = 4
	}
	rc := refusalCases(kc, leaves, kinds(std, policy.Hierarchical))
	engine.Explore(func(x *engine.X) { rc[x.Choose("case", len(rc))].run(x) }, engine.Opts{Name: "refusals", Budget: engine.Budget(time.Minute, 10*time.Minute)})

	engine.Explore(mspBody(kc, all), engine.Opts{Name: "msp/k256", Budget: engine.Budget(3*time.Minute, 20*time.Minute)})
	// the other two fields: everything but the n=6 CNFs / 5-leaf trees on non-ord assignments
	rest := buildCases(std, func(e catalog.Entry, a catalog.IDAssignment) bool { return !huge(e) || a.Name == "ord" })
	engine.Explore(mspBody(ec, rest), engine.Opts{Name: "msp/ed25519", Budget: engine.Budget(3*time.Minute, 20*time.Minute)})
	engine.Explore(mspBody(bc, rest), engine.Opts{Name: "msp/bls12381", Budget: engine.Budget(3*time.Minute, 20*time.Minute)})

	dealSections(std, kc, ec, bc)
}
