package c08

import (
	"bytes"
	"fmt"

	"verifmc/engine"
	"verifmc/ref/cbor"
)

type bitMode int

const (
	bitsAll  bitMode = iota // every bit of a leaf <= 64 bytes; LSB, MSB, one middle bit of larger leaves
	bitsLeaf                // LSB, MSB, one middle bit of every leaf
	bitsLSB                 // the least significant bit of every leaf
)

// idxAlphabet restricts which positions of homogeneous arrays / maps longer than 8 are edited.
type idxAlphabet int

const (
	idxAll idxAlphabet = 0 // every position
	idx5   idxAlphabet = 5 // {0, 1, mid, last-1, last} (DESIGN 3.4)
	idx2   idxAlphabet = 2 // {0, last}
	idx1   idxAlphabet = 1 // {0}
)

func (a idxAlphabet) has(i, n int) bool {
	if n <= 8 {
		return true
	}
	switch a {
	case idx5:
		return i == 0 || i == 1 || i == n/2 || i == n-2 || i == n-1
	case idx2:
		return i == 0 || i == n-1
	case idx1:
		return i == 0
	}
	return true
}

// edit is one single-fault mutation of a CBOR-encoded value.
type edit struct {
	class string // bit | key | tag | swap | drop | dup | extend | blank | rewrap | splice
	desc  string
	// gen produces the edited bytes on a walker private to the caller (a fresh newWalker over the same bytes)
	gen func(w *walker) []byte
}

type walker struct {
	root   *cbor.Node
	refs   []cbor.Ref
	parent map[*cbor.Node]*cbor.Ref // ref of a node, by node
}

func newWalker(b []byte) *walker {
	root, err := cbor.Parse(b)
	if err != nil {
		panic(engine.HarnessError{Msg: "proof is not one well-formed CBOR item: " + err.Error()})
	}
	if !bytes.Equal(cbor.Encode(root), b) {
		panic(engine.HarnessError{Msg: "proof bytes are not canonically encoded (tree re-encoding differs)"})
	}
	w := &walker{root: root, refs: cbor.Walk(root), parent: map[*cbor.Node]*cbor.Ref{}}
	for i := range w.refs {
		w.parent[w.refs[i].Node] = &w.refs[i]
	}
	return w
}

// allowed reports whether every enclosing long array / map is entered at a position of the alphabet.
func (w *walker) allowed(r *cbor.Ref, a idxAlphabet) bool {
	for r != nil && r.Parent != nil {
		switch r.Parent.Kind {
		case cbor.Array:
			if !a.has(r.Index, len(r.Parent.Items)) {
				return false
			}
		case cbor.Map:
			if !a.has((r.Index-1)/2, len(r.Parent.Items)/2) {
				return false
			}
		}
		r = w.parent[r.Parent]
	}
	return true
}

func bitPositions(nbits int, mode bitMode, leafLen int) []int {
	if nbits == 0 {
		return nil
	}
	if mode == bitsLSB {
		return []int{nbits - 1}
	}
	if mode == bitsAll && leafLen <= 64 {
		out := make([]int, nbits)
		for i := range out {
			out[i] = i
		}
		return out
	}
	out := []int{0}
	if nbits/2 != 0 && nbits/2 != nbits-1 {
		out = append(out, nbits/2)
	}
	if nbits-1 != 0 {
		out = append(out, nbits-1)
	}
	return out
}

// enumerateEdits lists every single-fault edit of b (bit index 0 = most significant bit of the first byte).
// restrict is the index alphabet applied to arrays / maps longer than 8.
func enumerateEdits(b []byte, mode bitMode, restrict idxAlphabet) []edit {
	w := newWalker(b)
	var out []edit
	add := func(class, desc string, gen func(w *walker) []byte) {
		out = append(out, edit{class, desc, gen})
	}
	// structural edits work on a clone addressed by walk index
	onClone := func(idx int, f func(cl *cbor.Node, r cbor.Ref)) func(w *walker) []byte {
		return func(w *walker) []byte {
			cl := w.root.Clone()
			refs := cbor.Walk(cl)
			f(cl, refs[idx])
			return cbor.Encode(cl)
		}
	}
	fixed := func(enc []byte) func(*walker) []byte { return func(*walker) []byte { return enc } }
	ok := func(r *cbor.Ref) bool { return w.allowed(r, restrict) }

	byKind := map[string][]int{}
	var kinds []string
	for i := range w.refs {
		r := &w.refs[i]
		n := r.Node
		if !ok(r) {
			continue
		}
		// --- value bits of leaves
		if n.IsLeaf() {
			switch n.Kind {
			case cbor.Bytes, cbor.Text:
				for _, bit := range bitPositions(8*len(n.Data), mode, len(n.Data)) {
					add("bit", fmt.Sprintf("%s bit %d/%d", r.Path, bit, 8*len(n.Data)), func(w *walker) []byte {
						d := w.refs[i].Node.Data
						d[bit/8] ^= 0x80 >> (bit % 8)
						enc := cbor.Encode(w.root)
						d[bit/8] ^= 0x80 >> (bit % 8)
						return enc
					})
				}
			case cbor.Uint, cbor.Nint:
				for k := 0; k < 8; k++ {
					add("bit", fmt.Sprintf("%s int bit %d", r.Path, k), func(w *walker) []byte {
						nn := w.refs[i].Node
						nn.Arg ^= 1 << k
						enc := cbor.Encode(w.root)
						nn.Arg ^= 1 << k
						return enc
					})
				}
			default: // simple values: false/true/null
				if n.Info < 24 {
					for _, v := range []byte{20, 21, 22} {
						if v != n.Info {
							add("bit", fmt.Sprintf("%s simple:=%d", r.Path, v), onClone(i, func(_ *cbor.Node, c cbor.Ref) {
								c.Node.Info, c.Node.Arg = v, uint64(v)
							}))
						}
					}
				}
			}
			if k := r.KindID; byKind[k] == nil {
				kinds = append(kinds, k)
			}
			byKind[r.KindID] = append(byKind[r.KindID], i)
			// component blanked / nulled / re-wrapped
			add("blank", r.Path+" := empty byte string", onClone(i, func(_ *cbor.Node, c cbor.Ref) {
				*c.Node = cbor.Node{Kind: cbor.Bytes, Data: []byte{}}
			}))
			add("blank", r.Path+" := null", onClone(i, func(_ *cbor.Node, c cbor.Ref) {
				*c.Node = cbor.Node{Kind: cbor.Simple, Info: 22, Arg: 22}
			}))
			add("rewrap", r.Path+" wrapped in a 1-element array", onClone(i, func(_ *cbor.Node, c cbor.Ref) {
				inner := *c.Node
				*c.Node = cbor.Node{Kind: cbor.Array, Items: []*cbor.Node{&inner}}
			}))
			add("rewrap", r.Path+" wrapped in tag 55799", onClone(i, func(_ *cbor.Node, c cbor.Ref) {
				inner := *c.Node
				*c.Node = cbor.Node{Kind: cbor.Tag, Arg: 55799, Items: []*cbor.Node{&inner}}
			}))
		}
		switch n.Kind {
		case cbor.Tag:
			add("tag", fmt.Sprintf("%s tag %d -> %d", r.Path, n.Arg, n.Arg+1), onClone(i, func(_ *cbor.Node, c cbor.Ref) { c.Node.Arg++ }))
			add("rewrap", r.Path+" tag removed", onClone(i, func(_ *cbor.Node, c cbor.Ref) { *c.Node = *c.Node.Items[0] }))
		case cbor.Bytes:
			if n.Embedded {
				add("rewrap", r.Path+" embedded item unwrapped from its byte string", onClone(i, func(_ *cbor.Node, c cbor.Ref) { *c.Node = *c.Node.Items[0] }))
			}
		case cbor.Map:
			for e := 0; e+1 < len(n.Items); e += 2 {
				e := e
				if !restrict.has(e/2, len(n.Items)/2) {
					continue
				}
				key := n.Items[e]
				kn := "?"
				if key.Kind == cbor.Text {
					kn = string(key.Data)
					add("key", fmt.Sprintf("%s key %q last character LSB flipped", r.Path, kn), onClone(i, func(_ *cbor.Node, c cbor.Ref) {
						d := c.Node.Items[e].Data
						if len(d) > 0 {
							d[len(d)-1] ^= 1
						}
					}))
				}
				add("drop", fmt.Sprintf("%s entry %q dropped", r.Path, kn), onClone(i, func(_ *cbor.Node, c cbor.Ref) {
					c.Node.Items = append(append([]*cbor.Node{}, c.Node.Items[:e]...), c.Node.Items[e+2:]...)
				}))
				add("dup", fmt.Sprintf("%s entry %q duplicated", r.Path, kn), onClone(i, func(_ *cbor.Node, c cbor.Ref) {
					it := c.Node.Items
					c.Node.Items = append(append(append([]*cbor.Node{}, it[:e+2]...), it[e].Clone(), it[e+1].Clone()), it[e+2:]...)
				}))
			}
			if len(n.Items) >= 4 {
				add("swap", r.Path+" first two entries reordered", onClone(i, func(_ *cbor.Node, c cbor.Ref) {
					it := c.Node.Items
					it[0], it[1], it[2], it[3] = it[2], it[3], it[0], it[1]
				}))
			}
			// parallel arrays (a proof made of rho repetitions keeps one array per component): the SAME edit on every
			// sibling array of one length keeps them consistent with each other while the number of components changes
			byLen := map[int][]int{}
			var lens []int
			for e := 1; e < len(n.Items); e += 2 {
				if v := n.Items[e]; v.Kind == cbor.Array && len(v.Items) > 0 {
					if byLen[len(v.Items)] == nil {
						lens = append(lens, len(v.Items))
					}
					byLen[len(v.Items)] = append(byLen[len(v.Items)], e)
				}
			}
			for _, ln := range lens {
				grp := byLen[ln]
				if len(grp) < 2 {
					continue
				}
				each := func(f func(a *cbor.Node)) func(w *walker) []byte {
					return onClone(i, func(_ *cbor.Node, c cbor.Ref) {
						for _, e := range grp {
							f(c.Node.Items[e])
						}
					})
				}
				add("extend", fmt.Sprintf("%s all %d sibling arrays of length %d: last element repeated at the end", r.Path, len(grp), ln), each(func(a *cbor.Node) {
					a.Items = append(a.Items, a.Items[len(a.Items)-1].Clone())
				}))
				add("extend", fmt.Sprintf("%s all %d sibling arrays of length %d: first element repeated at the front", r.Path, len(grp), ln), each(func(a *cbor.Node) {
					a.Items = append([]*cbor.Node{a.Items[0].Clone()}, a.Items...)
				}))
				add("drop", fmt.Sprintf("%s all %d sibling arrays of length %d: last element dropped", r.Path, len(grp), ln), each(func(a *cbor.Node) {
					a.Items = a.Items[:len(a.Items)-1]
				}))
				if ln > 1 {
					add("swap", fmt.Sprintf("%s all %d sibling arrays of length %d: first two elements swapped", r.Path, len(grp), ln), each(func(a *cbor.Node) {
						a.Items[0], a.Items[1] = a.Items[1], a.Items[0]
					}))
				}
			}
			add("extend", r.Path+" extra entry \"zz\":null appended", onClone(i, func(_ *cbor.Node, c cbor.Ref) {
				c.Node.Items = append(c.Node.Items, &cbor.Node{Kind: cbor.Text, Data: []byte("zz")}, &cbor.Node{Kind: cbor.Simple, Info: 22, Arg: 22})
			}))
		case cbor.Array:
			ln := len(n.Items)
			for e := 0; e < ln; e++ {
				e := e
				if !restrict.has(e, ln) {
					continue
				}
				add("drop", fmt.Sprintf("%s[%d] dropped (len %d)", r.Path, e, ln), onClone(i, func(_ *cbor.Node, c cbor.Ref) {
					c.Node.Items = append(append([]*cbor.Node{}, c.Node.Items[:e]...), c.Node.Items[e+1:]...)
				}))
				add("dup", fmt.Sprintf("%s[%d] duplicated (len %d)", r.Path, e, ln), onClone(i, func(_ *cbor.Node, c cbor.Ref) {
					it := c.Node.Items
					c.Node.Items = append(append(append([]*cbor.Node{}, it[:e+1]...), it[e].Clone()), it[e+1:]...)
				}))
				if e+1 < ln {
					add("swap", fmt.Sprintf("%s[%d]<->[%d] elements swapped", r.Path, e, e+1), onClone(i, func(_ *cbor.Node, c cbor.Ref) {
						c.Node.Items[e], c.Node.Items[e+1] = c.Node.Items[e+1], c.Node.Items[e]
					}))
				}
			}
			if ln > 2 {
				add("drop", fmt.Sprintf("%s truncated to its first element (len %d)", r.Path, ln), onClone(i, func(_ *cbor.Node, c cbor.Ref) { c.Node.Items = c.Node.Items[:1] }))
			}
			add("drop", fmt.Sprintf("%s emptied (len %d)", r.Path, ln), onClone(i, func(_ *cbor.Node, c cbor.Ref) { c.Node.Items = nil }))
			add("extend", r.Path+" extended by null", onClone(i, func(_ *cbor.Node, c cbor.Ref) {
				c.Node.Items = append(c.Node.Items, &cbor.Node{Kind: cbor.Simple, Info: 22, Arg: 22})
			}))
			add("extend", r.Path+" extended by an empty byte string", onClone(i, func(_ *cbor.Node, c cbor.Ref) {
				c.Node.Items = append(c.Node.Items, &cbor.Node{Kind: cbor.Bytes, Data: []byte{}})
			}))
		}
	}
	// --- swaps of two leaves of the same kind (all pairs when a kind has <= 6 members, else neighbours + first/last)
	for _, k := range kinds {
		idx := byKind[k]
		var pairs [][2]int
		if len(idx) <= 6 {
			for a := 0; a < len(idx); a++ {
				for c := a + 1; c < len(idx); c++ {
					pairs = append(pairs, [2]int{idx[a], idx[c]})
				}
			}
		} else {
			for a := 0; a+1 < len(idx); a++ {
				pairs = append(pairs, [2]int{idx[a], idx[a+1]})
			}
			pairs = append(pairs, [2]int{idx[0], idx[len(idx)-1]})
		}
		for _, p := range pairs {
			a, c := w.refs[p[0]], w.refs[p[1]]
			add("swap", fmt.Sprintf("leaves %s <-> %s swapped", a.Path, c.Path), func(w *walker) []byte {
				cl := w.root.Clone()
				refs := cbor.Walk(cl)
				*refs[p[0]].Node, *refs[p[1]].Node = *refs[p[1]].Node, *refs[p[0]].Node
				return cbor.Encode(cl)
			})
		}
	}
	// --- whole-value re-wraps and length edits
	add("rewrap", "whole value wrapped in a 1-element array", fixed(append([]byte{0x81}, b...)))
	add("rewrap", "whole value wrapped in tag 55799", fixed(append([]byte{0xd9, 0xd9, 0xf7}, b...)))
	add("rewrap", "whole value wrapped in a byte string", fixed(cbor.Encode(&cbor.Node{Kind: cbor.Bytes, Data: b})))
	if b[0]>>5 == 5 && b[0]&0x1f < 24 {
		add("rewrap", "top-level map head re-encoded with a 1-byte length", fixed(append([]byte{0xb8, b[0] & 0x1f}, b[1:]...)))
	}
	add("extend", "one trailing zero byte appended", fixed(append(append([]byte{}, b...), 0)))
	add("drop", "last byte removed", fixed(append([]byte{}, b[:len(b)-1]...)))
	return out
}

// spliceEdits replaces each leaf of b by the leaf at the same path of donor (another valid value of the same kind).
func spliceEdits(b, donor []byte, restrict idxAlphabet) []edit {
	w := newWalker(b)
	d, err := cbor.Parse(donor)
	if err != nil {
		return nil
	}
	dl := map[string]*cbor.Node{}
	for _, r := range cbor.Leaves(d) {
		dl[r.Path] = r.Node
	}
	var out []edit
	for i := range w.refs {
		r := &w.refs[i]
		if !r.Node.IsLeaf() || !w.allowed(r, restrict) {
			continue
		}
		dn, ok := dl[r.Path]
		if !ok || dn.Kind != r.Node.Kind {
			continue
		}
		out = append(out, edit{"splice", r.Path + " := same leaf of another valid proof", func(w *walker) []byte {
			n := w.refs[i].Node
			old := *n
			*n = *dn
			enc := cbor.Encode(w.root)
			*n = old
			return enc
		}})
	}
	return out
}
