// C10 — session setup gives all parties the same context and symmetric pairwise secrets.
//
// Honest part (section "honest"): quorum size n x ID assignment x delivery (Go values / real CBOR wire) x how the second
// session differs from the first (all parties' randomness, or exactly one party's) x seed pair, both sessions driven
// through Participant.Round1..Round4. Oracles: equal SessionID and transcript state among all parties, symmetric
// pairwise seeds, every seed distinct from every other seed of both sessions and of every sub-context, SubContext(Q)
// for EVERY sub-quorum Q (|Q|>=2) agreeing among its members and differing from every other Q' and from the parent,
// PRZS zero shares over {k256 scalars, k256 points, BLS12-381 G1} summing to the identity over the quorum and over
// every Q with no individual share being the identity.
//
// Fault part (section "faults"): every CBOR leaf of Round1Broadcast, Round2Broadcast, Round2P2P, Round3P2P of every
// sender (and every recipient for the unicasts) x the mutation operators; see fault_test.go for the per-leaf
// classification and the oracle.
package c10

import (
	"encoding/hex"
	"fmt"
	"sort"
	"testing"
	"time"

	"github.com/bronlabs/bron-crypto/pkg/base/algebra"
	"github.com/bronlabs/bron-crypto/pkg/base/curves/k256"
	"github.com/bronlabs/bron-crypto/pkg/base/curves/pairable/bls12381"
	"github.com/bronlabs/bron-crypto/pkg/base/datastructures/hashset"
	"github.com/bronlabs/bron-crypto/pkg/mpc/session"
	"github.com/bronlabs/bron-crypto/pkg/mpc/sharing"
	"github.com/bronlabs/bron-crypto/pkg/mpc/zero/przs"

	"verifmc/engine"
)

func TestMain(m *testing.M) { engine.Main(m, "C10", "fault_enumeration") }

// ---------------------------------------------------------------------------------------------------------------
// Configuration catalogue (DESIGN §4): ID assignments, listed in the (unsorted) order in which parties are created.

type idAssignment struct {
	name string
	ids  []sharing.ID
}

var assignments = []idAssignment{
	{"ordinal", []sharing.ID{1, 2, 3, 4, 5}},
	{"sparse-unsorted", []sharing.ID{7, 3, 64, 12, 5}},
	{"large", []sharing.ID{1<<16 - 1, 1<<32 + 1, 1<<63 + 5, 1<<64 - 1, 1<<48 + 3}},
}

func maxN() int {
	if engine.Thorough() {
		return 5
	}
	return 4
}

func chooseQuorum(x *engine.X) (int, idAssignment, []sharing.ID) {
	n := 2 + x.Choose("n", maxN()-1)
	a := engine.Pick(x, "ids", assignments)
	return n, a, append([]sharing.ID{}, a.ids[:n]...)
}

func sorted(ids []sharing.ID) []sharing.ID {
	out := append([]sharing.ID{}, ids...)
	sort.Slice(out, func(i, j int) bool { return out[i] < out[j] })
	return out
}

// ---------------------------------------------------------------------------------------------------------------
// Zero-share groups.

type zeroGroup struct {
	name string
	// run samples the zero share of every context (all of the same quorum) and applies the oracle
	run func(x *engine.X, cfg, where string, ctxs []*session.Context)
}

func mkZeroGroup[GE algebra.GroupElement[GE]](name string, g algebra.FiniteGroup[GE]) zeroGroup {
	return zeroGroup{name: name, run: func(x *engine.X, cfg, where string, ctxs []*session.Context) {
		x.Case(cfg + "/zero/" + name + "/" + where)
		sum := g.OpIdentity()
		for _, c := range ctxs {
			sh, err := przs.SampleZeroShare(c, g)
			if err != nil {
				x.Failf("zero/error", "%s %s: SampleZeroShare of party %d failed: %v", where, name, c.HolderID(), err)
				return
			}
			v := sh.Value()
			if v.IsOpIdentity() || v.Equal(g.OpIdentity()) {
				x.Failf("zero/share-is-identity", "%s %s: the zero share of party %d is the identity", where, name, c.HolderID())
			}
			sum = sum.Op(v)
		}
		if !sum.IsOpIdentity() || !sum.Equal(g.OpIdentity()) {
			x.Failf("zero/sum-not-identity", "%s %s: the zero shares of the %d parties do not sum to the identity", where, name, len(ctxs))
		}
	}}
}

var zeroGroups = []zeroGroup{
	mkZeroGroup[*k256.Scalar]("k256-scalars", k256.NewScalarField()),
	mkZeroGroup[*k256.Point]("k256-points", k256.NewCurve()),
	mkZeroGroup[*bls12381.PointG1]("bls12381-g1", bls12381.NewG1()),
}

// ---------------------------------------------------------------------------------------------------------------
// Oracles on a family of contexts that are supposed to describe the same (sub)quorum.

type registry struct {
	cfg    string            // configuration key (prefix of the inner-case keys)
	seeds  map[string]string // hex(first 64 seed bytes) -> where it was seen (global: both sessions, all sub-contexts)
	probes map[string]string // hex(transcript probe) -> where (per session: parent and every sub-quorum)
}

// agree demands: equal SessionID, equal transcript state, symmetric pairwise seeds. `members` is sorted.
// It returns false when something is missing so that dependent oracles are skipped.
func agree(x *engine.X, prefix, where string, ctxs map[sharing.ID]*session.Context, members []sharing.ID) bool {
	ok := true
	first := ctxs[members[0]]
	p0 := probe(first)
	for _, m := range members[1:] {
		if ctxs[m].SessionID() != first.SessionID() {
			x.Failf(prefix+"/sid-disagree", "%s: parties %d and %d hold different session identifiers", where, members[0], m)
			ok = false
		}
		if hex.EncodeToString(probe(ctxs[m])) != hex.EncodeToString(p0) {
			x.Failf(prefix+"/transcript-disagree", "%s: parties %d and %d hold different transcript states (probe label %q)", where, members[0], m, probeLabel)
			ok = false
		}
	}
	for i, a := range members {
		for _, b := range members[i+1:] {
			sa, sb := seed64(ctxs[a], b), seed64(ctxs[b], a)
			if sa == nil || sb == nil {
				x.Failf(prefix+"/seed-missing", "%s: no pairwise seed for the pair (%d,%d): at %d present=%v, at %d present=%v", where, a, b, a, sa != nil, b, sb != nil)
				ok = false
				continue
			}
			if hex.EncodeToString(sa) != hex.EncodeToString(sb) {
				x.Failf(prefix+"/seed-asymmetric", "%s: the pairwise seed of (%d,%d) differs between its two holders", where, a, b)
				ok = false
			}
		}
	}
	return ok
}

// record registers the seeds and the transcript probe of one agreed family and demands global distinctness.
func (r *registry) record(x *engine.X, where string, ctxs map[sharing.ID]*session.Context, members []sharing.ID) {
	for i, a := range members {
		for _, b := range members[i+1:] {
			s := seed64(ctxs[a], b)
			if s == nil {
				continue
			}
			k, w := hex.EncodeToString(s), fmt.Sprintf("%s pair(%d,%d)", where, a, b)
			if prev, dup := r.seeds[k]; dup {
				x.Failf("distinct/seed", "the pairwise seed of [%s] equals the seed of [%s]", w, prev)
			}
			r.seeds[k] = w
		}
	}
	k := hex.EncodeToString(probe(ctxs[members[0]]))
	if prev, dup := r.probes[k]; dup {
		x.Failf("distinct/transcript", "the transcript state of [%s] equals that of [%s]", where, prev)
	}
	r.probes[k] = where
}

func ctxList(ctxs map[sharing.ID]*session.Context, members []sharing.ID) []*session.Context {
	out := make([]*session.Context, len(members))
	for i, m := range members {
		out[i] = ctxs[m]
	}
	return out
}

// checkSession applies every honest oracle to one completed session; it returns the session identifier.
func checkSession(x *engine.X, tag string, sr *sessionRun, reg *registry) (sid string, ok bool) {
	ctxs := map[sharing.ID]*session.Context{}
	for _, id := range sr.ids {
		pt := sr.parties[id]
		if pt.panicMsg != "" {
			x.Failf("honest/panic", "session %s, party %d: %s", tag, id, pt.panicMsg)
			return "", false
		}
		if pt.ctx == nil {
			x.Failf("honest/setup-failed", "session %s, party %d did not complete an honest setup: %s (%v)", tag, id, pt.outcome(), pt.err)
			return "", false
		}
		ctxs[id] = pt.ctx
	}
	members := sorted(sr.ids)
	reg.probes = map[string]string{} // transcript distinctness is demanded within one session
	x.Case(reg.cfg + "/session/" + tag)
	if !agree(x, "honest", "session "+tag, ctxs, members) {
		return "", false
	}
	reg.record(x, "session "+tag+" parent", ctxs, members)
	for _, g := range zeroGroups {
		g.run(x, reg.cfg, "session "+tag+" parent", ctxList(ctxs, members))
	}

	// every sub-quorum of size >= 2 (the full quorum included: a derived context, different from the parent)
	n := len(members)
	for mask := 1; mask < 1<<n; mask++ {
		var q []sharing.ID
		for i := 0; i < n; i++ {
			if mask>>i&1 == 1 {
				q = append(q, members[i])
			}
		}
		if len(q) < 2 {
			continue
		}
		where := fmt.Sprintf("session %s SubContext(%v)", tag, q)
		x.Case(reg.cfg + "/" + where)
		// each member derives from its own parent context, handing the set over in its own (creation) order
		sub := map[sharing.ID]*session.Context{}
		bad := false
		for _, m := range q {
			var order []sharing.ID
			for _, id := range sr.ids {
				if contains(q, id) {
					order = append(order, id)
				}
			}
			if m == q[len(q)-1] {
				reverse(order)
			}
			c, err := ctxs[m].SubContext(hashset.NewComparable(order...).Freeze())
			if err != nil || c == nil {
				x.Failf("subcontext/error", "%s failed at member %d: %v", where, m, err)
				bad = true
				break
			}
			sub[m] = c
		}
		if bad || !agree(x, "subcontext", where, sub, q) {
			continue
		}
		reg.record(x, where, sub, q)
		for _, g := range zeroGroups {
			g.run(x, reg.cfg, where, ctxList(sub, q))
		}
	}
	// deriving sub-contexts and sampling must not have disturbed the parents: they still agree
	agree(x, "honest/after-derivation", "session "+tag+" after deriving all sub-contexts", ctxs, members)
	s := ctxs[members[0]].SessionID()
	return hex.EncodeToString(s[:]), true
}

func contains(ids []sharing.ID, id sharing.ID) bool {
	for _, v := range ids {
		if v == id {
			return true
		}
	}
	return false
}

func reverse(ids []sharing.ID) {
	for i, j := 0, len(ids)-1; i < j; i, j = i+1, j-1 {
		ids[i], ids[j] = ids[j], ids[i]
	}
}

func seedPairs() int {
	if engine.Thorough() {
		return 8
	}
	return 1
}

func honestBody(x *engine.X) {
	n, a, ids := chooseQuorum(x)
	useWire := x.Choose("delivery", 2) == 1 // 0: Go values handed over directly, 1: through the real CBOR wire encoding
	// how session B differs from session A: 0 = every party draws fresh randomness, k = only the k-th party does
	diff := x.Choose("sessionB-differs-in", n+1)
	sp := x.Choose("seedpair", seedPairs())
	seed := engine.Seed()*1000 + int64(sp)

	var only sharing.ID
	if diff > 0 {
		only = ids[diff-1]
	}
	A := runSession(ids, sessionStreams(seed, "A", "A", 0), useWire, nil)
	B := runSession(ids, sessionStreams(seed, "B", "A", only), useWire, nil)

	reg := &registry{cfg: fmt.Sprintf("%d/%s/%v/%d/%d", n, a.name, useWire, diff, sp), seeds: map[string]string{}}
	sidA, okA := checkSession(x, "A", A, reg)
	sidB, okB := checkSession(x, "B", B, reg) // same registry: seeds must also differ ACROSS the two sessions
	if okA && okB {
		x.Observe(n, a.name, useWire, diff, "sidA", sidA[:16], "sidB", sidB[:16], "sids-differ", sidA != sidB, "seeds", len(reg.seeds))
	}
}

// ---------------------------------------------------------------------------------------------------------------

func TestCheck(t *testing.T) {
	engine.Rule("honest: every (n, ID assignment, delivery in {Go values, CBOR wire}, session-B variant in {all parties fresh, only party k fresh}, seed pair) - two complete setups through Round1..Round4 each, then EVERY sub-quorum of size>=2 of each session x 3 zero-share groups as inner cases (key = session/sub-quorum/group). " +
		"faults: every (n, ID assignment, deviating sender, message kind, recipient for unicasts, CBOR leaf of that message, operator) - one altered leaf per execution, broadcast leaves altered identically for all recipients; an execution is non-trivial when the altered bytes differ from the honest ones and were delivered. " +
		"Operators: single-bit flips (LSB, MSB, middle; all 256 bit positions in thorough), all-zero, the same leaf of the same sender in the parallel session, the same leaf of every other sender, every other leaf of the same kind in the same message.")
	engine.Assume(
		"every broadcast reaches all recipients identically (property premise; enforced by echo broadcast, C11) - broadcast alterations are therefore uniform",
		"one altered leaf per execution; the deviating sender otherwise runs the honest code on unaltered inputs",
		"randomness is one fixed SHA-256 counter stream per (session, party) derived from VERIF_SEED",
		"the lossless CBOR walker in /verif/mc/ref/cbor (re-encoding is asserted byte-identical before every alteration)",
		"hash outputs of distinct inputs are distinct (a collision would be reported as a violation)",
		"purego build of the library; group arithmetic itself is C14's subject",
	)
	engine.Explore(honestBody, engine.Opts{Name: "honest", Budget: engine.Budget(2*time.Minute, 15*time.Minute)})
	engine.Explore(dependenceBody, engine.Opts{Name: "contribution-dependence", Budget: engine.Budget(2*time.Minute, 10*time.Minute)})
	engine.Explore(historiesBody, engine.Opts{Name: "subcontext-histories", Budget: engine.Budget(2*time.Minute, 10*time.Minute)})
	sec := engine.Explore(faultBody, engine.Opts{Name: "faults", Budget: engine.Budget(2*time.Minute, 20*time.Minute)})
	histMu.Lock()
	keys := make([]string, 0, len(faultHist))
	for k := range faultHist {
		keys = append(keys, k)
	}
	sort.Strings(keys)
	for _, k := range keys {
		sec.Note("%6d x %s", faultHist[k], k)
	}
	histMu.Unlock()
}
