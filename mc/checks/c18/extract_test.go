package c18

import (
	"fmt"

	"github.com/bronlabs/bron-crypto/pkg/base/algebra"
	"github.com/bronlabs/bron-crypto/pkg/commitments/hashcom"
	"github.com/bronlabs/bron-crypto/pkg/commitments/intcom"
	"github.com/bronlabs/bron-crypto/pkg/commitments/pedersencom"
	ts "github.com/bronlabs/bron-crypto/pkg/transcripts"
	"github.com/bronlabs/bron-crypto/pkg/transcripts/hagrid"

	"verifmc/engine"
)

// tHist is one transcript history. Two histories with the same class are the same sequence of transcript
// operations (reached through different object lifetimes, e.g. via Clone); all other pairs differ.
type tHist struct {
	name  string
	class int
	build func() ts.Transcript
}

func transcriptHistories() []tHist {
	p := func() ts.Transcript { return hagrid.NewTranscript("p") }
	a, b := []byte("a"), []byte("b")
	hs := []tHist{
		{"new(p)", 0, p},
		{"new(q)", 1, func() ts.Transcript { return hagrid.NewTranscript("q") }},
		{"append(l;a)", 2, func() ts.Transcript { t := p(); t.AppendBytes("l", a); return t }},
		{"append(l;b)", 3, func() ts.Transcript { t := p(); t.AppendBytes("l", b); return t }},
		{"append(l2;a)", 4, func() ts.Transcript { t := p(); t.AppendBytes("l2", a); return t }},
		{"append(l;a,b)", 5, func() ts.Transcript { t := p(); t.AppendBytes("l", a, b); return t }},
		{"append(l;ab)", 6, func() ts.Transcript { t := p(); t.AppendBytes("l", []byte("ab")); return t }},
		{"append(l;a)+append(l;b)", 7, func() ts.Transcript { t := p(); t.AppendBytes("l", a); t.AppendBytes("l", b); return t }},
		{"append(l;b)+append(l;a)", 8, func() ts.Transcript { t := p(); t.AppendBytes("l", b); t.AppendBytes("l", a); return t }},
		{"domsep(l)", 9, func() ts.Transcript { t := p(); t.AppendDomainSeparator("l"); return t }},
		{"domsep(l)+append(l;a)", 10, func() ts.Transcript { t := p(); t.AppendDomainSeparator("l"); t.AppendBytes("l", a); return t }},
		{"append(l;a)+domsep(l)", 11, func() ts.Transcript { t := p(); t.AppendBytes("l", a); t.AppendDomainSeparator("l"); return t }},
		{"extract(x,32)", 12, func() ts.Transcript { t := p(); _, _ = t.ExtractBytes("x", 32); return t }},
		{"extract(x,33)", 13, func() ts.Transcript { t := p(); _, _ = t.ExtractBytes("x", 33); return t }},
		{"extract(y,32)", 14, func() ts.Transcript { t := p(); _, _ = t.ExtractBytes("y", 32); return t }},
		{"append(l;)", 15, func() ts.Transcript { t := p(); t.AppendBytes("l"); return t }},
		{"append(l;'')", 16, func() ts.Transcript { t := p(); t.AppendBytes("l", []byte{}); return t }},
		{"append(la;)", 17, func() ts.Transcript { t := p(); t.AppendBytes("la"); return t }},
		// the same history as class 2, reached through a clone whose original is extended afterwards
		{"clone[append(l;a)], original extended", 2, func() ts.Transcript {
			t := p()
			t.AppendBytes("l", a)
			c := t.Clone()
			t.AppendBytes("l", b)
			return c
		}},
		// the same history as class 7, reached by extending a clone
		{"clone[append(l;a)]+append(l;b)", 7, func() ts.Transcript {
			t := p()
			t.AppendBytes("l", a)
			c := t.Clone()
			c.AppendBytes("l", b)
			return c
		}},
	}
	return hs
}

var extractLabels = []string{"k", "k2"}

// extractScheme extracts a key and reduces it to a canonical value string (read without library arithmetic).
type extractScheme struct {
	name    string
	extract func(t ts.Transcript, label string) (key any, canon string, err error)
	equal   func(a, b any) bool // the library's own Equal
}

func extractSchemes() []extractScheme {
	kc, bc := k256Ctx(), blsG1Ctx()
	ik := intcomKeys()[0]
	group := ik.pub.Group()
	return []extractScheme{
		{
			name: "hashcom",
			extract: func(t ts.Transcript, label string) (any, string, error) {
				k, err := hashcom.ExtractCommitmentKey(t, label)
				if err != nil {
					return nil, "", err
				}
				return k, fmt.Sprintf("%x", k[:]), nil
			},
			equal: func(a, b any) bool { return a.(*hashcom.CommitmentKey).Equal(b.(*hashcom.CommitmentKey)) },
		},
		pedersenExtractScheme(kc, 1),
		pedersenExtractScheme(bc, 1),
		pedersenExtractScheme(kc, 7), // a caller-chosen base point other than the canonical generator

		{
			name: "intcom",
			extract: func(t ts.Transcript, label string) (any, string, error) {
				k, err := intcom.ExtractCommitmentKey(t, label, group)
				if err != nil {
					return nil, "", err
				}
				return k, k.S().Value().Big().Text(16) + "/" + k.T().Value().Big().Text(16), nil
			},
			equal: func(a, b any) bool { return a.(*intcom.CommitmentKey).Equal(b.(*intcom.CommitmentKey)) },
		},
	}
}

func pedersenExtractScheme[E algebra.PrimeGroupElement[E, S], S algebra.PrimeFieldElement[S]](c *curveCtx[E, S], baseMul int64) extractScheme {
	base := c.group.Generator().ScalarOp(c.scalar(bi(baseMul)))
	return extractScheme{
		name: fmt.Sprintf("pedersen-%s-base%dG", c.name, baseMul),
		extract: func(t ts.Transcript, label string) (any, string, error) {
			k, err := pedersencom.ExtractCommitmentKey(t, label, base)
			if err != nil {
				return nil, "", err
			}
			if c.affine(k.G()).key() != c.affine(base).key() {
				return nil, "", fmt.Errorf("the extracted key's g is not the base point the caller supplied (%d*G)", baseMul)
			}
			return k, c.affine(k.G()).key() + c.affine(k.H()).key(), nil
		},
		equal: func(a, b any) bool {
			return a.(*pedersencom.CommitmentKey[E, S]).Equal(b.(*pedersencom.CommitmentKey[E, S]))
		},
	}
}

type extracted struct {
	key   any
	canon string
	err   error
}

var extractCache memo[extracted]

// extractBody: scheme x ordered pair of (history, label) items; the two items of a pair are built as independent
// transcript objects (instance 0 / instance 1), so "equal histories" is tested on distinct objects.
func extractBody(x *engine.X) {
	schemes := extractSchemes()
	sc := schemes[x.Choose("scheme", len(schemes))]
	hists := transcriptHistories()
	nItems := len(hists) * len(extractLabels)
	i := x.Choose("item", nItems)
	get := func(item, instance int) extracted {
		h, label := hists[item/len(extractLabels)], extractLabels[item%len(extractLabels)]
		return extractCache.get(fmt.Sprintf("%s/%d/%d", sc.name, item, instance), func() extracted {
			k, canon, err := sc.extract(h.build(), label)
			return extracted{k, canon, err}
		})
	}
	a := get(i, 0)
	hi, li := hists[i/len(extractLabels)], extractLabels[i%len(extractLabels)]
	if a.err != nil {
		x.Failf("extract/"+sc.name+"/err", "ExtractCommitmentKey failed for history %q label %q: %v", hi.name, li, a.err)
		return
	}
	equalPairs, differentPairs := 0, 0
	for j := 0; j < nItems; j++ {
		b := get(j, 1)
		hj, lj := hists[j/len(extractLabels)], extractLabels[j%len(extractLabels)]
		x.Case(fmt.Sprintf("%s/%d/%d", sc.name, i, j))
		if b.err != nil {
			continue // reported when j is the first item
		}
		want := hi.class == hj.class && li == lj
		got, lib := a.canon == b.canon, sc.equal(a.key, b.key)
		if got != lib {
			x.Failf("extract/"+sc.name+"/equal", "key.Equal=%v but the key values are equal=%v (histories %q/%q vs %q/%q)", lib, got, hi.name, li, hj.name, lj)
		}
		switch {
		case want && !got:
			x.Failf("extract/"+sc.name+"/not-deterministic", "equal transcript histories %q and %q (label %q) give different keys: %s vs %s", hi.name, hj.name, li, a.canon, b.canon)
		case !want && got:
			x.Failf("extract/"+sc.name+"/collision", "different transcript histories %q/%q and %q/%q give the same key %s", hi.name, li, hj.name, lj, a.canon)
		case want:
			equalPairs++
		default:
			differentPairs++
		}
	}
	x.Observe(sc.name, i, equalPairs, differentPairs)
}
