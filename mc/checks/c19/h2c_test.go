package c19

// Hash-to-curve / hash-to-field part of C19, through the PUBLIC curve API only.
//
// Space: for every curve with a public Hash / HashWithDst (k256, p256, pallas, vesta, BLS12-381 G1 and G2,
// edwards25519, curve25519 and the prime-subgroup wrappers of the last two) the full grid
//   message in {RFC 9380 Appendix J messages} ∪ {byte pattern of every length 0..200 (thorough 0..1024)}
//   DST     in {suite default (Hash), "a", 255 bytes, 256 bytes (oversize-DST path), "QUUX-V01-CS02-with-"+suite, …}
// and for every field with a public Hash (scalar and base fields) the same message set.
// Oracle: deterministic; on the curve (curve equation in math/big) and annihilated by the prime group order
// (math/big double-and-add with the reference group law); the library's own IsTorsionFree only as a secondary
// assertion; different DST => different point; pairwise distinct over the whole grid; an oversize DST equals its
// RFC 9380 §5.3.3 replacement; field hashes equal the RFC 9380 §5.2 hash_to_field recomputation; equality with the
// RFC 9380 Appendix J vectors (copied from the repository's impl-package test data into /verif/kat/rfc9380).

import (
	"bytes"
	"crypto/sha256"
	"crypto/sha512"
	"encoding/json"
	"fmt"
	"hash"
	"math/big"
	"os"
	"path/filepath"
	"sort"
	"strings"
	"sync"
	"time"

	"golang.org/x/crypto/blake2b"

	"github.com/bronlabs/bron-crypto/pkg/base"
	"github.com/bronlabs/bron-crypto/pkg/base/curves/curve25519"
	"github.com/bronlabs/bron-crypto/pkg/base/curves/edwards25519"
	"github.com/bronlabs/bron-crypto/pkg/base/curves/k256"
	"github.com/bronlabs/bron-crypto/pkg/base/curves/p256"
	"github.com/bronlabs/bron-crypto/pkg/base/curves/pairable/bls12381"
	"github.com/bronlabs/bron-crypto/pkg/base/curves/pasta"

	"verifmc/engine"
)

// ---- adapters from the public API to reference coordinates ------------------------------------------------

type libFE interface{ ComponentsBytes() [][]byte }

type libPoint[F libFE] interface {
	AffineX() (F, error)
	AffineY() (F, error)
	IsTorsionFree() bool
	IsOpIdentity() bool
	Bytes() []byte
}

// hPoint is a library point read out through its public accessors.
type hPoint struct {
	p           pt
	enc         []byte
	torsionFree func() bool // the library's own answer (secondary; costs a library scalar multiplication)
}

func (h hPoint) key() string {
	if h.p.inf {
		return "identity"
	}
	return fmt.Sprintf("%x.%x/%x.%x", h.p.x.a, h.p.x.b, h.p.y.a, h.p.y.b)
}

func feToEl(f libFE) el {
	c := f.ComponentsBytes()
	e := el{new(big.Int).SetBytes(c[0]), new(big.Int)}
	if len(c) > 1 {
		e.b.SetBytes(c[1])
	}
	return e
}

func conv[P libPoint[F], F libFE](p P, err error) (hPoint, error) {
	if err != nil {
		return hPoint{}, err
	}
	out := hPoint{enc: p.Bytes(), torsionFree: p.IsTorsionFree}
	if p.IsOpIdentity() {
		out.p.inf = true
		return out, nil
	}
	x, err := p.AffineX()
	if err != nil {
		return out, fmt.Errorf("AffineX: %w", err)
	}
	y, err := p.AffineY()
	if err != nil {
		return out, fmt.Errorf("AffineY: %w", err)
	}
	out.p = pt{x: feToEl(x), y: feToEl(y)}
	return out, nil
}

type h2cCurve struct {
	name    string
	suite   string // the suite string the library names for this curve
	group   groupRef
	edw     bool // reference neutral element is (0,1) rather than the point at infinity
	// cofactor 1: the curve group itself has prime order (SEC 2 / FIPS 186-4 / pasta specification), so a point that
	// satisfies the curve equation is in the prime-order subgroup; the order-annihilation test adds nothing and is run
	// for these curves in the thorough tier and on the known-answer points only.
	cofactorOne bool
	order   *big.Int
	fieldP  *big.Int
	m, l    int // extension degree and hash_to_field L of the suite
	newH    func() hash.Hash
	hash    func(msg []byte) (hPoint, error)
	hashDst func(dst string, msg []byte) (hPoint, error)
	// prime-subgroup wrapper of the same map (edwards25519 / curve25519), nil otherwise
	subHash    func(msg []byte) (hPoint, error)
	subHashDst func(dst string, msg []byte) (hPoint, error)
}

func newBlake2b() hash.Hash {
	h, err := blake2b.New512(nil)
	if err != nil {
		panic(err)
	}
	return h
}

var h2cCurves = []*h2cCurve{
	{
		name: "k256", cofactorOne: true, suite: k256.Hash2CurveSuite, group: refK256(), order: nK256, fieldP: pK256, m: 1, l: 48, newH: sha256.New,
		hash: func(m []byte) (hPoint, error) { return conv[*k256.Point, *k256.BaseFieldElement](k256.NewCurve().Hash(m)) },
		hashDst: func(d string, m []byte) (hPoint, error) {
			return conv[*k256.Point, *k256.BaseFieldElement](k256.NewCurve().HashWithDst(d, m))
		},
	},
	{
		name: "p256", cofactorOne: true, suite: p256.Hash2CurveSuite, group: refP256(), order: nP256, fieldP: pP256, m: 1, l: 48, newH: sha256.New,
		hash: func(m []byte) (hPoint, error) { return conv[*p256.Point, *p256.BaseFieldElement](p256.NewCurve().Hash(m)) },
		hashDst: func(d string, m []byte) (hPoint, error) {
			return conv[*p256.Point, *p256.BaseFieldElement](p256.NewCurve().HashWithDst(d, m))
		},
	},
	{
		name: "pallas", cofactorOne: true, suite: pasta.PallasHash2CurveSuite, group: refPallas(), order: qPallas, fieldP: pPallas, m: 1, l: 64, newH: newBlake2b,
		hash: func(m []byte) (hPoint, error) {
			return conv[*pasta.PallasPoint, *pasta.FpFieldElement](pasta.NewPallasCurve().Hash(m))
		},
		hashDst: func(d string, m []byte) (hPoint, error) {
			return conv[*pasta.PallasPoint, *pasta.FpFieldElement](pasta.NewPallasCurve().HashWithDst(d, m))
		},
	},
	{
		name: "vesta", cofactorOne: true, suite: pasta.VestaHash2CurveSuite, group: refVesta(), order: pPallas, fieldP: qPallas, m: 1, l: 64, newH: newBlake2b,
		hash: func(m []byte) (hPoint, error) {
			return conv[*pasta.VestaPoint, *pasta.FqFieldElement](pasta.NewVestaCurve().Hash(m))
		},
		hashDst: func(d string, m []byte) (hPoint, error) {
			return conv[*pasta.VestaPoint, *pasta.FqFieldElement](pasta.NewVestaCurve().HashWithDst(d, m))
		},
	},
	{
		name: "bls12381g1", suite: bls12381.Hash2CurveSuiteG1, group: refG1(), order: rBLS, fieldP: pBLS, m: 1, l: 64, newH: sha256.New,
		hash: func(m []byte) (hPoint, error) {
			return conv[*bls12381.PointG1, *bls12381.BaseFieldElementG1](bls12381.NewG1().Hash(m))
		},
		hashDst: func(d string, m []byte) (hPoint, error) {
			return conv[*bls12381.PointG1, *bls12381.BaseFieldElementG1](bls12381.NewG1().HashWithDst(d, m))
		},
	},
	{
		name: "bls12381g2", suite: bls12381.Hash2CurveSuiteG2, group: refG2(), order: rBLS, fieldP: pBLS, m: 2, l: 64, newH: sha256.New,
		hash: func(m []byte) (hPoint, error) {
			return conv[*bls12381.PointG2, *bls12381.BaseFieldElementG2](bls12381.NewG2().Hash(m))
		},
		hashDst: func(d string, m []byte) (hPoint, error) {
			return conv[*bls12381.PointG2, *bls12381.BaseFieldElementG2](bls12381.NewG2().HashWithDst(d, m))
		},
	},
	{
		name: "edwards25519", suite: edwards25519.Hash2CurveSuite, group: refEd25519(), edw: true, order: l25519, fieldP: p25519, m: 1, l: 48, newH: sha512.New,
		hash: func(m []byte) (hPoint, error) {
			return conv[*edwards25519.Point, *edwards25519.BaseFieldElement](edwards25519.NewCurve().Hash(m))
		},
		hashDst: func(d string, m []byte) (hPoint, error) {
			return conv[*edwards25519.Point, *edwards25519.BaseFieldElement](edwards25519.NewCurve().HashWithDst(d, m))
		},
		subHash: func(m []byte) (hPoint, error) {
			return conv[*edwards25519.PrimeSubGroupPoint, *edwards25519.BaseFieldElement](edwards25519.NewPrimeSubGroup().Hash(m))
		},
		subHashDst: func(d string, m []byte) (hPoint, error) {
			return conv[*edwards25519.PrimeSubGroupPoint, *edwards25519.BaseFieldElement](edwards25519.NewPrimeSubGroup().HashWithDst(d, m))
		},
	},
	{
		name: "curve25519", suite: curve25519.Hash2CurveSuite, group: refCurve25519(), order: l25519, fieldP: p25519, m: 1, l: 48, newH: sha512.New,
		hash: func(m []byte) (hPoint, error) {
			return conv[*curve25519.Point, *curve25519.BaseFieldElement](curve25519.NewCurve().Hash(m))
		},
		hashDst: func(d string, m []byte) (hPoint, error) {
			return conv[*curve25519.Point, *curve25519.BaseFieldElement](curve25519.NewCurve().HashWithDst(d, m))
		},
		subHash: func(m []byte) (hPoint, error) {
			return conv[*curve25519.PrimeSubGroupPoint, *curve25519.BaseFieldElement](curve25519.NewPrimeSubGroup().Hash(m))
		},
		subHashDst: func(d string, m []byte) (hPoint, error) {
			return conv[*curve25519.PrimeSubGroupPoint, *curve25519.BaseFieldElement](curve25519.NewPrimeSubGroup().HashWithDst(d, m))
		},
	},
}

// ---- the grid -------------------------------------------------------------------------------------------------

var katMessages = []string{
	"",
	"abc",
	"abcdef0123456789",
	"q128_" + strings.Repeat("q", 128),
	"a512_" + strings.Repeat("a", 512),
}

func patternMsg(n int) []byte {
	b := make([]byte, n)
	for i := range b {
		b[i] = byte(i)
	}
	return b
}

var (
	gridMsgsOnce sync.Once
	gridMsgsV    [][]byte
)

// gridMsgs: RFC 9380 messages ∪ pattern of every length 0..maxLen, without duplicates (the empty message).
func gridMsgs() [][]byte {
	gridMsgsOnce.Do(func() {
		maxLen := 200 // 201 consecutive lengths: every alignment of a 64- or 128-byte hash block boundary occurs
		if engine.Thorough() {
			maxLen = 1024
		}
		seen := map[string]bool{}
		add := func(m []byte) {
			if !seen[string(m)] {
				seen[string(m)] = true
				gridMsgsV = append(gridMsgsV, m)
			}
		}
		for _, m := range katMessages {
			add([]byte(m))
		}
		for n := 0; n <= maxLen; n++ {
			add(patternMsg(n))
		}
	})
	return gridMsgsV
}

type dstChoice struct {
	name string
	dst  string
	def  bool // use Hash(msg) (the suite default) instead of HashWithDst
}

func gridDsts(c *h2cCurve) []dstChoice {
	rep := func(n int) string { return strings.Repeat("d", n) }
	ds := []dstChoice{
		{name: "default", def: true},
		{name: "a", dst: "a"},
		{name: "255 bytes", dst: rep(255)},
		{name: "256 bytes (oversize)", dst: rep(256)},
		{name: "QUUX+suite", dst: "QUUX-V01-CS02-with-" + c.suite},
	}
	if engine.Thorough() {
		ds = append(ds,
			dstChoice{name: "b", dst: "b"},
			dstChoice{name: "16 bytes", dst: rep(16)},
			dstChoice{name: "254 bytes", dst: rep(254)},
			dstChoice{name: "257 bytes (oversize)", dst: rep(257)},
			dstChoice{name: "300 bytes (oversize)", dst: rep(300)},
		)
	}
	return ds
}

func msgName(m []byte) string {
	if len(m) > 12 {
		return fmt.Sprintf("len=%d %x…", len(m), m[:8])
	}
	return fmt.Sprintf("len=%d %x", len(m), m)
}

// per-curve set of grid outputs (affine coordinates -> first (dst,msg) that produced them)
type gridSet struct {
	mu   sync.Mutex
	m    map[string]string
	dups []string
	n    int
	once sync.Once
	done bool
}

var gridSets = func() []*gridSet {
	s := make([]*gridSet, len(h2cCurves))
	for i := range s {
		s[i] = &gridSet{m: map[string]string{}}
	}
	return s
}()

func (g *gridSet) put(key, who string) {
	g.mu.Lock()
	defer g.mu.Unlock()
	g.n++
	if prev, ok := g.m[key]; ok {
		if prev != who {
			g.dups = append(g.dups, prev+"  ==  "+who)
		} else {
			g.n-- // re-evaluation of the same case (replay)
		}
		return
	}
	g.m[key] = who
}

func samePoint(a, b hPoint) bool { return a.key() == b.key() && bytes.Equal(a.enc, b.enc) }

// gridEval evaluates all DSTs for one (curve, message).
func gridEval(x *engine.X, ci, mi int) {
	c := h2cCurves[ci]
	msg := gridMsgs()[mi]
	dsts := gridDsts(c)
	outs := make([]hPoint, len(dsts))
	okv := make([]bool, len(dsts))
	for di, d := range dsts {
		who := fmt.Sprintf("%s dst=%s msg(%s)", c.name, d.name, msgName(msg))
		x.Case(fmt.Sprintf("%s/%d/%d", c.name, di, mi))
		call := func() (hPoint, error) {
			if d.def {
				return c.hash(msg)
			}
			return c.hashDst(d.dst, msg)
		}
		p, err := call()
		if err != nil {
			x.Failf("h2c/"+c.name+"/error", "%s: hashing failed: %v", who, err)
			continue
		}
		// deterministic
		if p2, err2 := call(); err2 != nil || !samePoint(p, p2) {
			x.Failf("h2c/"+c.name+"/determinism", "%s: two calls give %s and %s (err %v)", who, p.key(), p2.key(), err2)
		}
		// on the curve and in the prime-order subgroup, by the reference model
		if !c.group.onCurve(p.p) {
			x.Failf("h2c/"+c.name+"/on-curve", "%s: output %s does not satisfy the curve equation", who, p.key())
			continue
		}
		if (!c.cofactorOne || engine.Thorough()) && !c.group.isNeutral(scalarMul(c.group, c.order, refForm(c, p.p))) {
			x.Failf("h2c/"+c.name+"/subgroup", "%s: output %s is not annihilated by the prime group order", who, p.key())
		}
		if !p.torsionFree() {
			x.Failf("h2c/"+c.name+"/subgroup-lib", "%s: the library's IsTorsionFree() is false for its own hash output %s", who, p.key())
		}
		// oversize DST: equal to hashing with the RFC 9380 §5.3.3 replacement DST
		if !d.def && len(d.dst) > 255 {
			h := c.newH()
			h.Write([]byte("H2C-OVERSIZE-DST-"))
			h.Write([]byte(d.dst))
			if q, err := c.hashDst(string(h.Sum(nil)), msg); err != nil || !samePoint(p, q) {
				x.Failf("h2c/"+c.name+"/oversize-dst", "%s: differs from hashing with DST = H(\"H2C-OVERSIZE-DST-\" || DST): %s vs %s (err %v)", who, p.key(), q.key(), err)
			}
		}
		// the prime-subgroup wrapper returns the same point and never refuses
		if c.subHash != nil {
			var q hPoint
			if d.def {
				q, err = c.subHash(msg)
			} else {
				q, err = c.subHashDst(d.dst, msg)
			}
			if err != nil || !samePoint(p, q) {
				x.Failf("h2c/"+c.name+"/prime-subgroup-api", "%s: PrimeSubGroup hash gives %s (err %v), Curve hash gives %s", who, q.key(), err, p.key())
			}
		}
		outs[di], okv[di] = p, true
		gridSets[ci].put(p.key(), who)
	}
	// different DST => different output (same message)
	for i := range dsts {
		for j := i + 1; j < len(dsts); j++ {
			if okv[i] && okv[j] && outs[i].key() == outs[j].key() {
				x.Failf("h2c/"+c.name+"/dst-separation", "%s msg(%s): DST %q and DST %q give the same point %s", c.name, msgName(msg), dsts[i].name, dsts[j].name, outs[i].key())
			}
		}
	}
	if p := outs[0]; okv[0] {
		x.Observe(fmt.Sprintf("%s msg#%d -> %.16s identity=%v", c.name, mi, p.key(), p.p.inf))
	}
}

// refForm maps the neutral element as read from the library to the reference representation.
func refForm(c *h2cCurve, p pt) pt {
	if p.inf && c.edw {
		return c.group.neutral()
	}
	return p
}

func gridBody(x *engine.X) {
	ci := x.Choose("curve", len(h2cCurves))
	mi := x.Choose("msg", len(gridMsgs()))
	gridEval(x, ci, mi)
}

// gridDistinctBody: one execution per curve; pairwise distinctness over the whole grid decided with one set.
func gridDistinctBody(x *engine.X) {
	ci := x.Choose("curve", len(h2cCurves))
	c, g := h2cCurves[ci], gridSets[ci]
	g.once.Do(func() {
		if g.done {
			return
		}
		// the grid section did not run in this process (replay): enumerate directly
		sx := &engine.X{}
		for mi := range gridMsgs() {
			gridEval(sx, ci, mi)
		}
	})
	want := len(gridMsgs()) * len(gridDsts(c))
	g.mu.Lock()
	defer g.mu.Unlock()
	x.Case(c.name)
	sort.Strings(g.dups)
	for _, d := range g.dups {
		x.Failf("h2c/"+c.name+"/grid-distinct", "two grid inputs hash to the same point: %s", d)
	}
	if gridComplete && len(g.dups) == 0 && (g.n != want || len(g.m) != want) {
		if g.n == want {
			engine.HarnessFail("h2c grid bookkeeping for %s: %d distinct points from %d inputs without a recorded duplicate", c.name, len(g.m), g.n)
		}
		// fewer inputs recorded than the grid size: some evaluations failed and were reported by the grid section
	}
	x.Observe(fmt.Sprintf("%s: %d distinct points from %d grid inputs (grid size %d)", c.name, len(g.m), g.n, want))
}

var gridComplete bool

// ---- hash to field ------------------------------------------------------------------------------------------

type h2fField struct {
	name string
	p    *big.Int
	m, l int
	newH func() hash.Hash
	dst  string
	hash func(msg []byte) (libFE, error)
}

var h2fFields = []*h2fField{
	{"k256/scalar", nK256, 1, 48, sha256.New, base.Hash2CurveAppTag + k256.Hash2CurveScalarSuite, func(m []byte) (libFE, error) { return k256.NewScalarField().Hash(m) }},
	{"k256/base", pK256, 1, 48, sha256.New, base.Hash2CurveAppTag + k256.Hash2CurveSuite, func(m []byte) (libFE, error) { return k256.NewBaseField().Hash(m) }},
	{"p256/scalar", nP256, 1, 48, sha256.New, base.Hash2CurveAppTag + p256.Hash2CurveScalarSuite, func(m []byte) (libFE, error) { return p256.NewScalarField().Hash(m) }},
	{"p256/base", pP256, 1, 48, sha256.New, base.Hash2CurveAppTag + p256.Hash2CurveSuite, func(m []byte) (libFE, error) { return p256.NewBaseField().Hash(m) }},
	{"edwards25519/scalar", l25519, 1, 48, sha512.New, base.Hash2CurveAppTag + edwards25519.Hash2CurveScalarSuite, func(m []byte) (libFE, error) { return edwards25519.NewScalarField().Hash(m) }},
	{"edwards25519/base", p25519, 1, 48, sha512.New, base.Hash2CurveAppTag + edwards25519.Hash2CurveSuite, func(m []byte) (libFE, error) { return edwards25519.NewBaseField().Hash(m) }},
	{"bls12381/scalar", rBLS, 1, 64, sha256.New, base.Hash2CurveAppTag + bls12381.Hash2CurveScalarSuite, func(m []byte) (libFE, error) { return bls12381.NewScalarField().Hash(m) }},
	{"bls12381/g1base", pBLS, 1, 64, sha256.New, base.Hash2CurveAppTag + bls12381.Hash2CurveSuiteG1, func(m []byte) (libFE, error) { return bls12381.NewG1BaseField().Hash(m) }},
	{"bls12381/g2base", pBLS, 2, 64, sha256.New, base.Hash2CurveAppTag + bls12381.Hash2CurveSuiteG2, func(m []byte) (libFE, error) { return bls12381.NewG2BaseField().Hash(m) }},
	{"pasta/fp", pPallas, 1, 64, newBlake2b, base.Hash2CurveAppTag + pasta.PallasHash2CurveSuite, func(m []byte) (libFE, error) { return pasta.NewPallasBaseField().Hash(m) }},
	{"pasta/fq", qPallas, 1, 64, newBlake2b, base.Hash2CurveAppTag + pasta.VestaHash2CurveSuite, func(m []byte) (libFE, error) { return pasta.NewVestaBaseField().Hash(m) }},
}

var fieldSets = func() []*gridSet {
	s := make([]*gridSet, len(h2fFields))
	for i := range s {
		s[i] = &gridSet{m: map[string]string{}}
	}
	return s
}()

func comps(f libFE) []*big.Int {
	cb := f.ComponentsBytes()
	out := make([]*big.Int, len(cb))
	for i := range cb {
		out[i] = new(big.Int).SetBytes(cb[i])
	}
	return out
}

func fieldBody(x *engine.X) {
	fi := x.Choose("field", len(h2fFields))
	mi := x.Choose("msg", len(gridMsgs()))
	fieldEval(x, fi, mi)
}

func fieldEval(x *engine.X, fi, mi int) {
	f := h2fFields[fi]
	msg := gridMsgs()[mi]
	who := fmt.Sprintf("%s msg(%s)", f.name, msgName(msg))
	x.Case(fmt.Sprintf("%s/%d", f.name, mi))
	e1, err := f.hash(msg)
	if err != nil {
		x.Failf("h2f/"+f.name+"/error", "%s: Hash failed: %v", who, err)
		return
	}
	e2, err := f.hash(msg)
	c1 := comps(e1)
	if err != nil || fmt.Sprint(c1) != fmt.Sprint(comps(e2)) {
		x.Failf("h2f/"+f.name+"/determinism", "%s: two calls give %v and %v", who, c1, comps(e2))
	}
	if len(c1) != f.m {
		x.Failf("h2f/"+f.name+"/degree", "%s: %d components, want %d", who, len(c1), f.m)
		return
	}
	want := refHashToField(f.newH, msg, []byte(f.dst), f.p, f.m, f.l, 1)[0]
	for j := range c1 {
		if c1[j].Cmp(f.p) >= 0 {
			x.Failf("h2f/"+f.name+"/range", "%s: component %d = %x is not reduced", who, j, c1[j])
		}
		if c1[j].Cmp(want[j]) != 0 {
			x.Failf("h2f/"+f.name+"/value", "%s: Hash = %x, RFC 9380 hash_to_field(msg, DST=%q, L=%d) mod p = %x", who, c1[j], f.dst, f.l, want[j])
		}
	}
	fieldSets[fi].put(fmt.Sprint(c1), who)
	x.Observe(fmt.Sprintf("%s msg#%d -> %.8x", f.name, mi, c1[0].Bytes()))
}

func fieldDistinctBody(x *engine.X) {
	fi := x.Choose("field", len(h2fFields))
	f, g := h2fFields[fi], fieldSets[fi]
	g.once.Do(func() {
		if g.done {
			return
		}
		// the h2f grid section did not run in this process (replay): enumerate directly
		sx := &engine.X{}
		for mi := range gridMsgs() {
			fieldEval(sx, fi, mi)
		}
	})
	g.mu.Lock()
	defer g.mu.Unlock()
	x.Case(f.name)
	sort.Strings(g.dups)
	for _, d := range g.dups {
		x.Failf("h2f/"+f.name+"/distinct", "two messages hash to the same field element: %s", d)
	}
	x.Observe(fmt.Sprintf("%s: %d distinct elements from %d messages", f.name, len(g.m), g.n))
}

// ---- RFC 9380 Appendix J known answers ------------------------------------------------------------------------

type katFile struct {
	Source  string   `json:"source"`
	Suite   string   `json:"suite"`
	Dst     string   `json:"dst"`
	Vectors []katVec `json:"vectors"`
	file    string
	curve   *h2cCurve
}

type katVec struct {
	Msg string `json:"msg"`
	P   struct {
		X json.RawMessage `json:"x"`
		Y json.RawMessage `json:"y"`
	} `json:"p"`
	U []json.RawMessage `json:"u"`
}

// katEl parses "hex" or ["hex c0","hex c1"]; ok=false for an empty placeholder.
func katEl(raw json.RawMessage) (e el, ok bool, err error) {
	var s string
	if json.Unmarshal(raw, &s) == nil {
		if s == "" {
			return e, false, nil
		}
		v, good := new(big.Int).SetString(s, 16)
		if !good {
			return e, false, fmt.Errorf("bad hex %q", s)
		}
		return el{v, new(big.Int)}, true, nil
	}
	var ss []string
	if err := json.Unmarshal(raw, &ss); err != nil || len(ss) != 2 {
		return e, false, fmt.Errorf("unrecognised coordinate %s", raw)
	}
	a, ok1 := new(big.Int).SetString(ss[0], 16)
	b, ok2 := new(big.Int).SetString(ss[1], 16)
	if !ok1 || !ok2 {
		return e, false, fmt.Errorf("bad hex in %s", raw)
	}
	return el{a, b}, true, nil
}

var (
	katOnce  sync.Once
	katFiles []*katFile
	katErr   error
)

func katDir() string {
	d := os.Getenv("VERIF_DIR")
	if d == "" {
		d = "/verif"
	}
	return filepath.Join(d, "kat", "rfc9380")
}

func loadKats() ([]*katFile, error) {
	katOnce.Do(func() {
		names, err := filepath.Glob(filepath.Join(katDir(), "*.json"))
		if err != nil || len(names) == 0 {
			katErr = fmt.Errorf("no vector files in %s (%v)", katDir(), err)
			return
		}
		sort.Strings(names)
		prefix := map[string]string{"secp256k1_": "k256", "P256_": "p256", "pallas_": "pallas", "vesta_": "vesta", "BLS12381G1_": "bls12381g1", "BLS12381G2_": "bls12381g2", "edwards25519_": "edwards25519", "curve25519_": "curve25519"}
		for _, n := range names {
			b, err := os.ReadFile(n)
			if err != nil {
				katErr = err
				return
			}
			kf := &katFile{file: filepath.Base(n)}
			if err := json.Unmarshal(b, kf); err != nil {
				katErr = fmt.Errorf("%s: %w", n, err)
				return
			}
			for p, cn := range prefix {
				if strings.HasPrefix(kf.Suite, p) {
					for _, c := range h2cCurves {
						if c.name == cn {
							kf.curve = c
						}
					}
				}
			}
			if kf.curve == nil || len(kf.Vectors) == 0 {
				katErr = fmt.Errorf("%s: unknown suite %q or no vectors", n, kf.Suite)
				return
			}
			katFiles = append(katFiles, kf)
		}
	})
	return katFiles, katErr
}

func (k *katFile) randomOracle() bool { return strings.HasSuffix(k.Suite, "_RO_") }

// katPoint returns the expected point of vector vi.
func (k *katFile) katPoint(vi int) (pt, error) {
	x, okx, err := katEl(k.Vectors[vi].P.X)
	if err != nil {
		return pt{}, err
	}
	y, oky, err := katEl(k.Vectors[vi].P.Y)
	if err != nil || !okx || !oky {
		return pt{}, fmt.Errorf("vector %d of %s has no point (%v)", vi, k.file, err)
	}
	return pt{x: x, y: y}, nil
}

func ptEq(a, b pt) bool {
	return a.inf == b.inf && (a.inf || (a.x.a.Cmp(b.x.a) == 0 && a.x.b.Cmp(b.x.b) == 0 && a.y.a.Cmp(b.y.a) == 0 && a.y.b.Cmp(b.y.b) == 0))
}

// roKats are the files checkable through the public API (which implements hash_to_curve only).
func roKats() []*katFile {
	all, err := loadKats()
	if err != nil {
		engine.HarnessFail("known-answer vectors: %v", err)
		return nil
	}
	var out []*katFile
	for _, k := range all {
		if k.randomOracle() {
			out = append(out, k)
		}
	}
	return out
}

func katBody(x *engine.X) {
	ks := roKats()
	if len(ks) == 0 {
		return
	}
	k := ks[x.Choose("file", len(ks))]
	vi := x.Choose("vector", len(k.Vectors))
	v := k.Vectors[vi]
	c := k.curve
	want, err := k.katPoint(vi)
	if err != nil {
		engine.HarnessFail("%v", err)
		return
	}
	x.Case(fmt.Sprintf("%s/%d", k.file, vi))
	// self-check of the reference models on the published point and the published u values
	if !inPrimeSubgroup(c.group, c.order, want) {
		engine.HarnessFail("reference curve model rejects the published point of %s vector %d", k.file, vi)
		return
	}
	if len(v.U) > 0 {
		ref := refHashToField(c.newH, []byte(v.Msg), []byte(k.Dst), c.fieldP, c.m, c.l, len(v.U))
		for i, raw := range v.U {
			u, ok, err := katEl(raw)
			if err != nil {
				engine.HarnessFail("%v", err)
				return
			}
			if ok && (u.a.Cmp(ref[i][0]) != 0 || (c.m == 2 && u.b.Cmp(ref[i][1]) != 0)) {
				engine.HarnessFail("reference hash_to_field disagrees with the published u[%d] of %s vector %d", i, k.file, vi)
				return
			}
		}
	}
	got, err := c.hashDst(k.Dst, []byte(v.Msg))
	if err != nil {
		x.Failf("h2c/"+c.name+"/kat", "%s: HashWithDst(%q, %q) failed: %v", k.file, k.Dst, v.Msg, err)
		return
	}
	if !ptEq(got.p, want) {
		x.Failf("h2c/"+c.name+"/kat", "%s (%s): HashWithDst(%q, msg(%s)) = %s, published P = %x.%x/%x.%x", k.file, k.Source, k.Dst, msgName([]byte(v.Msg)), got.key(), want.x.a, want.x.b, want.y.a, want.y.b)
	}
	if c.subHashDst != nil {
		if q, err := c.subHashDst(k.Dst, []byte(v.Msg)); err != nil || !ptEq(q.p, want) {
			x.Failf("h2c/"+c.name+"/kat-prime-subgroup-api", "%s: PrimeSubGroup.HashWithDst(%q, msg(%s)) = %s (err %v), published P differs", k.file, k.Dst, msgName([]byte(v.Msg)), q.key(), err)
		}
	}
	x.Observe(fmt.Sprintf("%s #%d -> %.16s", k.file, vi, got.key()))
}

// suiteNameBody: the suite a curve names must be the construction its public Hash computes. RFC 9380 §8.10: the
// ENC_VAR field of a suite ID is "RO" for hash_to_curve and "NU" for encode_to_curve.
func suiteNameBody(x *engine.X) {
	c := h2cCurves[x.Choose("curve", len(h2cCurves))]
	all, err := loadKats()
	if err != nil {
		engine.HarnessFail("known-answer vectors: %v", err)
		return
	}
	x.Case(c.name)
	var named string
	switch {
	case strings.HasSuffix(c.suite, "_RO_"):
		named = "RO"
	case strings.HasSuffix(c.suite, "_NU_"):
		named = "NU"
	default:
		x.Failf("h2c/suite-name/"+c.name, "suite string %q names neither an _RO_ nor an _NU_ suite", c.suite)
		return
	}
	// which construction do the published vectors identify?
	matches := func(k *katFile) (bool, string) {
		for vi, v := range k.Vectors {
			want, err := k.katPoint(vi)
			if err != nil {
				engine.HarnessFail("%v", err)
				return false, err.Error()
			}
			got, err := c.hashDst(k.Dst, []byte(v.Msg))
			if err != nil || !ptEq(got.p, want) {
				return false, fmt.Sprintf("msg(%s): got %s, published %x/%x", msgName([]byte(v.Msg)), got.key(), want.x.a, want.y.a)
			}
		}
		return true, ""
	}
	computes := map[string]string{} // ENC_VAR -> file it reproduces
	differs := map[string]string{}
	for _, k := range all {
		if k.curve != c {
			continue
		}
		enc := "NU"
		if k.randomOracle() {
			enc = "RO"
		}
		if ok, why := matches(k); ok {
			computes[enc] = k.file
		} else {
			differs[enc] = k.file + " " + why
		}
	}
	x.Observe(fmt.Sprintf("%s names %q (%s); reproduces %v; differs from %d vector files", c.name, c.suite, named, computes, len(differs)))
	other := map[string]string{"RO": "NU", "NU": "RO"}[named]
	if f, ok := computes[other]; ok && computes[named] == "" {
		construction := map[string]string{"RO": "hash_to_curve (two field elements, uniform)", "NU": "encode_to_curve (one field element, nonuniform)"}
		msg := fmt.Sprintf("%s names the suite %q, i.e. %s, but its public Hash/HashWithDst compute %s: they reproduce the published vectors of the _%s_ suite (%s)", c.name, c.suite, construction[named], construction[other], other, f)
		if d, ok := differs[named]; ok {
			msg += fmt.Sprintf(" and do not reproduce the vectors of the named suite (%s)", d)
		}
		x.Failf("h2c/suite-name/"+c.name, "%s", msg)
	}
}

// ---- sections -------------------------------------------------------------------------------------------------

func h2cSections() {
	// force lazily built singletons before the parallel exploration
	for _, c := range h2cCurves {
		_, _ = c.hash([]byte("warm-up"))
	}
	for _, f := range h2fFields {
		_, _ = f.hash([]byte("warm-up"))
	}
	sec := engine.Explore(gridBody, engine.Opts{Name: "h2c/grid", Budget: engine.Budget(6*time.Minute, 40*time.Minute)})
	if !sec.Skipped {
		gridComplete = sec.Exhaustive
		for _, g := range gridSets {
			g.done = true
		}
	} else {
		gridComplete = true
	}
	engine.Explore(gridDistinctBody, engine.Opts{Name: "h2c/grid-distinct"})
	if fsec := engine.Explore(fieldBody, engine.Opts{Name: "h2f/grid", Budget: engine.Budget(2*time.Minute, 10*time.Minute)}); !fsec.Skipped {
		for _, g := range fieldSets {
			g.done = true
		}
	}
	engine.Explore(fieldDistinctBody, engine.Opts{Name: "h2f/distinct"})
	engine.Explore(katBody, engine.Opts{Name: "h2c/kat"})
	engine.Explore(suiteNameBody, engine.Opts{Name: "h2c/suite-name"})
}
