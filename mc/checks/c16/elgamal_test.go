package c16

import (
	"github.com/bronlabs/bron-crypto/pkg/base/serde"
	"bytes"
	"crypto/sha256"
	"encoding/hex"
	"fmt"
	"math/big"
	"os"
	"strings"
	"sync"
	"time"

	"github.com/bronlabs/bron-crypto/pkg/base/algebra"
	"github.com/bronlabs/bron-crypto/pkg/base/curves/edwards25519"
	"github.com/bronlabs/bron-crypto/pkg/base/curves/k256"
	"github.com/bronlabs/bron-crypto/pkg/base/curves/pairable/bls12381"
	"github.com/bronlabs/bron-crypto/pkg/encryption/elgamal"

	"verifmc/engine"
	"verifmc/ref/conv"
	refc "verifmc/ref/curve"
)

// ---------------------------------------------------------------------------------------------------------------
// group contexts

// refOps is the math/big reference curve behind an untyped point (the three curves have different point types).
type refOps struct {
	mul func(k *big.Int) any // k*G by affine double-and-add
	add func(a, b any) any   // affine addition with explicit case analysis
	key func(p any) string
}

type egCtx[E elgamal.FiniteCyclicGroupElement[E, S], S algebra.PrimeFieldElement[S]] struct {
	name   string
	group  elgamal.FiniteCyclicGroup[E, S]
	field  algebra.PrimeField[S]
	q      *big.Int
	comp   func(E) []byte          // canonical compressed encoding
	refKey func(E) (string, error) // the library point read through its affine accessors, as a reference-curve key
	ref    refOps
	mu     sync.Mutex
	refMem map[string]any // k -> k*G on the reference curve
	libMem map[string]E   // k -> k*G by ONE library ScalarOp of the generator (pure function of k; points are immutable values)
}

func (c *egCtx[E, S]) sc(v *big.Int) S { return conv.FromBig(c.field, c.q, v) }

// baseMul is the library's k*G for an exponent combined in math/big.
func (c *egCtx[E, S]) baseMul(v *big.Int) E {
	r := new(big.Int).Mod(v, c.q)
	key := r.Text(16)
	c.mu.Lock()
	e, ok := c.libMem[key]
	c.mu.Unlock()
	if ok {
		return e
	}
	e = c.group.Generator().ScalarOp(c.sc(r))
	c.mu.Lock()
	c.libMem[key] = e
	c.mu.Unlock()
	return e
}

func (c *egCtx[E, S]) refPoint(v *big.Int) any {
	r := new(big.Int).Mod(v, c.q)
	key := r.Text(16)
	c.mu.Lock()
	p, ok := c.refMem[key]
	c.mu.Unlock()
	if ok {
		return p
	}
	p = c.ref.mul(r)
	c.mu.Lock()
	c.refMem[key] = p
	c.mu.Unlock()
	return p
}

func (c *egCtx[E, S]) refBase(v *big.Int) string { return c.ref.key(c.refPoint(v)) }

// refSum is the reference key of x*G + y*G computed by ONE reference addition of two (cached) reference multiples.
func (c *egCtx[E, S]) refSum(x, y *big.Int) string {
	return c.ref.key(c.ref.add(c.refPoint(x), c.refPoint(y)))
}

// sanity checks of the harness conversions (HarnessError, never a violation)
func (c *egCtx[E, S]) selfTest() {
	v := new(big.Int).Lsh(bi(1), 64)
	v.Add(v, bi(5))
	if conv.ToBig(c.sc(v)).Cmp(v) != 0 {
		panic(engine.HarnessError{Msg: c.name + ": scalar conversion is not big-endian canonical"})
	}
	g := c.group.Generator()
	k1, err := c.refKey(g)
	if err != nil || k1 != c.refBase(bi(1)) {
		panic(engine.HarnessError{Msg: fmt.Sprintf("%s: library generator %s (err %v) is not the reference generator %s", c.name, k1, err, c.refBase(bi(1)))})
	}
	k0, err := c.refKey(c.group.OpIdentity())
	if err != nil || k0 != c.refBase(bi(0)) {
		panic(engine.HarnessError{Msg: c.name + ": identity conversion mismatch"})
	}
	// reference self-consistency: (q-1)*G + G = O and 5*G + 7*G = 12*G
	if c.refSum(new(big.Int).Sub(c.q, bi(1)), bi(1)) != k0 || c.refSum(bi(5), bi(7)) != c.refBase(bi(12)) {
		panic(engine.HarnessError{Msg: c.name + ": reference curve addition inconsistent with its scalar multiplication"})
	}
}

// ---------------------------------------------------------------------------------------------------------------
// keys, alphabets, operations

type egKey[E elgamal.FiniteCyclicGroupElement[E, S], S algebra.PrimeFieldElement[S]] struct {
	ctx                                           *egCtx[E, S]
	name                                          string
	a                                             *big.Int
	sk                                            *elgamal.SecretKey[E, S]
	pk                                            *elgamal.PublicKey[E, S]
	plains                                        []namedInt // discrete logs mu of the plaintext mu*G
	nonces                                        []namedInt
	scalars                                       []namedInt
	depth                                         int
	nOps                                          int
	oSelf, oSelf3, oInv, oScalar, oShift, oRerand int

	fresh   map[int]*elgamal.Ciphertext[E, S]
	cache   map[string]*egState[E, S]
	cached  map[string]bool
	opCount map[string]int
	special map[string]int
	seenMu  map[string]struct{}
	seenRho map[string]struct{}
}

type egState[E elgamal.FiniteCyclicGroupElement[E, S], S algebra.PrimeFieldElement[S]] struct {
	preferSK bool
	ct       *elgamal.Ciphertext[E, S]
	mu, rho  *big.Int
	root     bool
	dead     bool
	fails    []fail
}

func (s *egState[E, S]) failf(key, format string, a ...any) {
	s.fails = append(s.fails, fail{key, fmt.Sprintf(format, a...)})
}

func newEGKey[E elgamal.FiniteCyclicGroupElement[E, S], S algebra.PrimeFieldElement[S]](c *egCtx[E, S], aName string, a *big.Int, depth int) *egKey[E, S] {
	sk, err := elgamal.NewSecretKey(c.group.Generator(), c.sc(a))
	if err != nil {
		panic(engine.HarnessError{Msg: fmt.Sprintf("%s: NewSecretKey(G, %s) refused: %v", c.name, aName, err)})
	}
	q := c.q
	qm1 := new(big.Int).Sub(q, bi(1))
	k := &egKey[E, S]{ctx: c, name: c.name + "/a=" + aName, a: a, sk: sk, pk: sk.Public(), depth: depth,
		fresh: map[int]*elgamal.Ciphertext[E, S]{}, cache: map[string]*egState[E, S]{}, cached: map[string]bool{}, opCount: map[string]int{}, special: map[string]int{}, seenMu: map[string]struct{}{}, seenRho: map[string]struct{}{}}
	k.plains = []namedInt{
		{"O", bi(0)}, {"G", bi(1)}, {"2G", bi(2)}, {"-G", qm1}, {"hG", new(big.Int).Rsh(q, 1)}, {"(h+1)G", new(big.Int).Add(new(big.Int).Rsh(q, 1), bi(1))},
		{"wG", new(big.Int).Mod(streamInt("eg/plain/"+c.name, 320), q)},
	}
	k.nonces = []namedInt{{"1", bi(1)}, {"2", bi(2)}, {"q-1", qm1}, {"w", new(big.Int).Mod(streamInt("eg/nonce/"+c.name, 320), q)}}
	k.scalars = []namedInt{{"0", bi(0)}, {"1", bi(1)}, {"q-1", qm1}, {"2", bi(2)}, {"2^64", new(big.Int).Lsh(bi(1), 64)}, {"w", new(big.Int).Mod(streamInt("eg/scalar/"+c.name, 320), q)}}
	k.oSelf = len(k.plains) * len(k.nonces)
	k.oSelf3 = k.oSelf + 1
	k.oInv = k.oSelf3 + 1
	k.oScalar = k.oInv + 1
	k.oShift = k.oScalar + len(k.scalars)
	k.oRerand = k.oShift + len(k.plains)
	k.nOps = k.oRerand + len(k.nonces)
	return k
}

func (k *egKey[E, S]) opName(op int) string {
	nR := len(k.nonces)
	switch {
	case op < k.oSelf:
		return fmt.Sprintf("Enc(%s;%s)", k.plains[op/nR].name, k.nonces[op%nR].name)
	case op == k.oSelf:
		return "Op(c,c)"
	case op == k.oSelf3:
		return "Op(c,c,c)"
	case op == k.oInv:
		return "Inv"
	case op < k.oShift:
		return "Scalar(" + k.scalars[op-k.oScalar].name + ")"
	case op < k.oRerand:
		return "Shift(" + k.plains[op-k.oShift].name + ")"
	default:
		return "ReRand(" + k.nonces[op-k.oRerand].name + ")"
	}
}

func (k *egKey[E, S]) family(op int) string {
	switch {
	case op < k.oSelf:
		return "enc"
	case op <= k.oSelf3:
		return "self"
	case op == k.oInv:
		return "inv"
	case op < k.oShift:
		return "scalar"
	case op < k.oRerand:
		return "shift"
	default:
		return "rerand"
	}
}

func (k *egKey[E, S]) histName(h []int) string {
	var sb strings.Builder
	for _, op := range h {
		sb.WriteString(k.opName(op))
		sb.WriteString(";")
	}
	return sb.String()
}

func (k *egKey[E, S]) plaintext(mu *big.Int) *elgamal.Plaintext[E, S] {
	var e E
	if mu.Sign() == 0 {
		e = k.ctx.group.OpIdentity()
	} else {
		e = k.ctx.baseMul(mu)
	}
	p, err := elgamal.NewPlaintext(e)
	if err != nil {
		panic(engine.HarnessError{Msg: "elgamal.NewPlaintext: " + err.Error()})
	}
	return p
}

func (k *egKey[E, S]) nonce(rho *big.Int) *elgamal.Nonce[S] {
	n, err := elgamal.NewNonce(k.ctx.sc(rho))
	if err != nil {
		panic(engine.HarnessError{Msg: "elgamal.NewNonce: " + err.Error()})
	}
	return n
}

func (k *egKey[E, S]) ctBytes(c *elgamal.Ciphertext[E, S]) []byte {
	cs := c.Value().Components()
	if len(cs) != 2 {
		return []byte(fmt.Sprintf("<%d components>", len(cs)))
	}
	return append(append([]byte{}, k.ctx.comp(cs[0])...), k.ctx.comp(cs[1])...)
}

func (k *egKey[E, S]) agree(ns *egState[E, S], op string, a *elgamal.Ciphertext[E, S], ea error, b *elgamal.Ciphertext[E, S], eb error) *elgamal.Ciphertext[E, S] {
	if ea != nil {
		ns.failf("elgamal/pk/"+op+"/refused", "PublicKey %s failed on valid operands: %v", op, ea)
		a = nil
	}
	if eb != nil {
		ns.failf("elgamal/sk/"+op+"/refused", "SecretKey %s failed on valid operands: %v", op, eb)
		b = nil
	}
	if a != nil && b != nil && !bytes.Equal(k.ctBytes(a), k.ctBytes(b)) {
		ns.failf("elgamal/sk-vs-pk/"+op, "SecretKey %s gives %x, PublicKey %s gives %x", op, k.ctBytes(b), op, k.ctBytes(a))
	}
	// both results are byte-equal (or a failure was recorded); alternate which object the history continues with, so
	// that ciphertext objects produced by one path are consumed by the other path as well
	if a == nil || (ns.preferSK && b != nil) {
		return b
	}
	return a
}

func (k *egKey[E, S]) wantPlain(ns *egState[E, S], tag string, got *elgamal.Plaintext[E, S], err error, mu *big.Int) {
	if err != nil || got == nil {
		ns.failf("elgamal/plaintext-"+tag+"/refused", "%s failed on valid operands: %v", tag, err)
		return
	}
	if rk, e := k.ctx.refKey(got.Value()); e != nil || rk != k.ctx.refBase(mu) || !got.Value().Equal(k.ctx.baseMul(mu)) {
		ns.failf("elgamal/plaintext-"+tag, "%s = %s (err %v), model %s*G = %s", tag, rk, e, mu.Text(16), k.ctx.refBase(mu))
	}
}

func (k *egKey[E, S]) wantNonce(ns *egState[E, S], tag string, got *elgamal.Nonce[S], err error, rho *big.Int) {
	if err != nil || got == nil {
		ns.failf("elgamal/nonce-"+tag+"/refused", "%s failed on valid operands: %v", tag, err)
		return
	}
	if conv.ToBig(got.Value()).Cmp(rho) != 0 {
		ns.failf("elgamal/nonce-"+tag, "%s = %s, model %s", tag, conv.ToBig(got.Value()).Text(16), rho.Text(16))
	}
}

func (k *egKey[E, S]) mod(v *big.Int) *big.Int { return v.Mod(v, k.ctx.q) }

func (k *egKey[E, S]) step(par *egState[E, S], op int, lvl int) (ns *egState[E, S], ok bool) {
	if par.dead || (par.root && op >= k.oSelf) {
		return nil, false
	}
	ns = &egState[E, S]{preferSK: lvl%2 == 0} // even levels continue with the SecretKey result, odd ones with the PublicKey result
	defer func() {
		if r := recover(); r != nil {
			if he, isH := r.(engine.HarnessError); isH {
				panic(he)
			}
			ns.failf("elgamal/panic/"+k.family(op), "panic while applying %s: %v", k.opName(op), r)
			ns.ct, ns.dead, ok = nil, true, true
		}
	}()
	type (
		C = *elgamal.Ciphertext[E, S]
		P = *elgamal.Plaintext[E, S]
		R = *elgamal.Nonce[S]
	)
	pk, sk := k.pk, k.sk
	var ptA P
	var nA R
	if !par.root {
		ptA, nA = k.plaintext(par.mu), k.nonce(par.rho)
	}
	add := func(a, b *big.Int) *big.Int { return k.mod(new(big.Int).Add(a, b)) }
	mul := func(a, b *big.Int) *big.Int { return k.mod(new(big.Int).Mul(a, b)) }
	neg := func(a *big.Int) *big.Int { return k.mod(new(big.Int).Neg(a)) }
	nR := len(k.nonces)
	switch {
	case op < k.oSelf:
		mu, rho := k.plains[op/nR].v, k.nonces[op%nR].v
		pt, n := k.plaintext(mu), k.nonce(rho)
		if par.root {
			a, ea := guard(func() (C, error) { return pk.EncryptWithNonce(pt, n) })
			b, eb := guard(func() (C, error) { return sk.EncryptWithNonce(pt, n) })
			ns.ct, ns.mu, ns.rho = k.agree(ns, "encrypt", a, ea, b, eb), new(big.Int).Set(mu), new(big.Int).Set(rho)
			break
		}
		// the fresh operand is the public-key encryption (itself checked as a depth-1 state, where both paths agree)
		fresh, ok := k.fresh[op]
		if !ok {
			var err error
			fresh, err = guard(func() (C, error) { return pk.EncryptWithNonce(pt, n) })
			if err != nil {
				ns.failf("elgamal/pk/encrypt/refused", "PublicKey EncryptWithNonce(%s;%s) failed: %v", k.plains[op/nR].name, k.nonces[op%nR].name, err)
				ns.dead = true
				return ns, true
			}
			k.fresh[op] = fresh
		}
		a, ea := guard(func() (C, error) { return pk.CiphertextOp(par.ct, fresh) })
		b, eb := guard(func() (C, error) { return sk.CiphertextOp(par.ct, fresh) })
		ns.ct, ns.mu, ns.rho = k.agree(ns, "op", a, ea, b, eb), add(par.mu, mu), add(par.rho, rho)
		p1, e := guard(func() (P, error) { return pk.PlaintextOp(ptA, pt) })
		k.wantPlain(ns, "op", p1, e, ns.mu)
		n1, e := guard(func() (R, error) { return pk.NonceOp(nA, n) })
		k.wantNonce(ns, "op", n1, e, ns.rho)
	case op == k.oSelf:
		a, ea := guard(func() (C, error) { return pk.CiphertextOp(par.ct, par.ct) })
		b, eb := guard(func() (C, error) { return sk.CiphertextOp(par.ct, par.ct) })
		ns.ct, ns.mu, ns.rho = k.agree(ns, "op-self", a, ea, b, eb), add(par.mu, par.mu), add(par.rho, par.rho)
		p1, e := guard(func() (P, error) { return pk.PlaintextOp(ptA, ptA) })
		k.wantPlain(ns, "op", p1, e, ns.mu)
		n1, e := guard(func() (R, error) { return pk.NonceOp(nA, nA) })
		k.wantNonce(ns, "op", n1, e, ns.rho)
	case op == k.oSelf3:
		a, ea := guard(func() (C, error) { return pk.CiphertextOp(par.ct, par.ct, par.ct) })
		b, eb := guard(func() (C, error) { return sk.CiphertextOp(par.ct, par.ct, par.ct) })
		ns.ct, ns.mu, ns.rho = k.agree(ns, "op-variadic", a, ea, b, eb), mul(par.mu, bi(3)), mul(par.rho, bi(3))
		p1, e := guard(func() (P, error) { return pk.PlaintextOp(ptA, ptA, ptA) })
		k.wantPlain(ns, "op-variadic", p1, e, ns.mu)
		n1, e := guard(func() (R, error) { return pk.NonceOp(nA, nA, nA) })
		k.wantNonce(ns, "op-variadic", n1, e, ns.rho)
	case op == k.oInv:
		a, ea := guard(func() (C, error) { return pk.CiphertextOpInv(par.ct) })
		b, eb := guard(func() (C, error) { return sk.CiphertextOpInv(par.ct) })
		ns.ct, ns.mu, ns.rho = k.agree(ns, "inv", a, ea, b, eb), neg(par.mu), neg(par.rho)
		p1, e := guard(func() (P, error) { return pk.PlaintextOpInv(ptA) })
		k.wantPlain(ns, "inv", p1, e, ns.mu)
		n1, e := guard(func() (R, error) { return pk.NonceOpInv(nA) })
		k.wantNonce(ns, "inv", n1, e, ns.rho)
	case op < k.oShift:
		sv := k.scalars[op-k.oScalar].v
		s := k.ctx.sc(sv)
		a, ea := guard(func() (C, error) { return pk.CiphertextScalarOp(par.ct, s) })
		b, eb := guard(func() (C, error) { return sk.CiphertextScalarOp(par.ct, s) })
		ns.ct, ns.mu, ns.rho = k.agree(ns, "scalar", a, ea, b, eb), mul(par.mu, sv), mul(par.rho, sv)
		p1, e := guard(func() (P, error) { return pk.PlaintextScalarOp(ptA, s) })
		k.wantPlain(ns, "scalar", p1, e, ns.mu)
		n1, e := guard(func() (R, error) { return pk.NonceScalarOp(nA, s) })
		k.wantNonce(ns, "scalar", n1, e, ns.rho)
	case op < k.oRerand:
		dv := k.plains[op-k.oShift].v
		d := k.plaintext(dv)
		a, ea := guard(func() (C, error) { return pk.Shift(par.ct, d) })
		b, eb := guard(func() (C, error) { return sk.Shift(par.ct, d) })
		ns.ct, ns.mu, ns.rho = k.agree(ns, "shift", a, ea, b, eb), add(par.mu, dv), new(big.Int).Set(par.rho)
	default:
		rv := k.nonces[op-k.oRerand].v
		r := k.nonce(rv)
		a, ea := guard(func() (C, error) { return pk.ReRandomise(par.ct, r) })
		b, eb := guard(func() (C, error) { return sk.ReRandomise(par.ct, r) })
		ns.ct, ns.mu, ns.rho = k.agree(ns, "rerandomise", a, ea, b, eb), new(big.Int).Set(par.mu), add(par.rho, rv)
	}
	if ns.ct == nil {
		ns.dead = true
	}
	return ns, true
}

func (k *egKey[E, S]) build(hist []int) (*egState[E, S], bool) {
	if len(hist) == 0 {
		return &egState[E, S]{root: true}, true
	}
	par, ok := k.cache[string(histKey(hist[:len(hist)-1]))]
	if !ok {
		par, ok = k.build(hist[:len(hist)-1])
		if !ok {
			return nil, false
		}
	}
	ns, ok := k.step(par, hist[len(hist)-1], len(hist))
	if ok && len(hist) < k.depth {
		// only the first history that reaches a state is ever extended by the search (same key as Canon)
		if c := k.canon(ns, hist); c == "" || !k.cached[c] {
			k.cached[c] = true
			k.cache[string(histKey(hist))] = ns
		}
	}
	return ns, ok
}

func (k *egKey[E, S]) canon(s *egState[E, S], hist []int) string {
	if s.root {
		return "root"
	}
	if s.ct == nil {
		return ""
	}
	h := sha256.New()
	h.Write(k.ctBytes(s.ct))
	fmt.Fprintf(h, "|%s|%s", s.mu.Text(16), s.rho.Text(16))
	return hex.EncodeToString(h.Sum(nil)[:16])
}

func (k *egKey[E, S]) invariant(x *engine.X, s *egState[E, S], hist []int) {
	where := fmt.Sprintf("key %s after %s", k.name, k.histName(hist))
	for _, f := range s.fails {
		x.Failf(f.key, "%s: %s", where, f.msg)
	}
	if s.ct == nil {
		return
	}
	c := k.ctx
	last := hist[len(hist)-1]
	k.opCount[k.family(last)]++
	x.Case(k.name + "/" + k.canon(s, hist))
	where += fmt.Sprintf(" (model mu=%s rho=%s)", s.mu.Text(16), s.rho.Text(16))
	cs := s.ct.Value().Components()
	if len(cs) != 2 {
		x.Failf("elgamal/ciphertext/shape", "%s: ciphertext has %d components", where, len(cs))
		return
	}
	gamma, delta := cs[0], cs[1]
	dexp := new(big.Int).Mul(s.rho, k.a)
	dexp.Add(dexp, s.mu).Mod(dexp, c.q)
	// 1. exact ciphertext, predicted from the exponents with one library base multiplication per component
	wg, wd := c.baseMul(s.rho), c.baseMul(dexp)
	if !gamma.Equal(wg) || !bytes.Equal(c.comp(gamma), c.comp(wg)) || !delta.Equal(wd) || !bytes.Equal(c.comp(delta), c.comp(wd)) {
		x.Failf("elgamal/formula/"+k.family(last), "%s: ciphertext (%x, %x) differs from (rho*G, (mu+rho*a)*G) = (%x, %x)", where, c.comp(gamma), c.comp(delta), c.comp(wg), c.comp(wd))
	}
	// 2. the same prediction on the math/big reference curve
	kg, e1 := c.refKey(gamma)
	kd, e2 := c.refKey(delta)
	rhoA := new(big.Int).Mul(s.rho, k.a)
	if wantD := c.refSum(s.mu, rhoA); e1 != nil || e2 != nil || kg != c.refBase(s.rho) || kd != wantD {
		x.Failf("elgamal/formula-ref/"+k.family(last), "%s: ciphertext (%s, %s) (err %v, %v) differs from the reference curve's (rho*G, mu*G + (rho*a)*G) = (%s, %s)", where, kg, kd, e1, e2, c.refBase(s.rho), wantD)
	}
	// 3. decryption inverts
	dec, err := guard(func() (*elgamal.Plaintext[E, S], error) { return k.sk.Decrypt(s.ct) })
	if err != nil {
		x.Failf("elgamal/decrypt/refused", "%s: Decrypt failed: %v", where, err)
		return
	}
	wm := c.baseMul(s.mu)
	km, e3 := c.refKey(dec.Value())
	if !dec.Value().Equal(wm) || !bytes.Equal(c.comp(dec.Value()), c.comp(wm)) || e3 != nil || km != c.refBase(s.mu) {
		x.Failf("elgamal/decrypt", "%s: Decrypt = %s (err %v), want mu*G = %s", where, km, e3, c.refBase(s.mu))
	}
	// vacuity bookkeeping
	k.seenMu[s.mu.Text(16)] = struct{}{}
	k.seenRho[s.rho.Text(16)] = struct{}{}
	if s.mu.Sign() == 0 {
		k.special["mu=0"]++
	}
	if s.rho.Sign() == 0 {
		k.special["rho=0"]++
	}
	if dexp.Sign() == 0 {
		k.special["delta=O"]++
	}
	if s.rho.Sign() == 0 && dexp.Sign() == 0 {
		k.special["c=(O,O)"]++
	}
}

func (k *egKey[E, S]) runBFS(budget time.Duration) {
	if f := os.Getenv("VERIF_C16_ONLY"); f != "" && !strings.Contains("elgamal/bfs/"+k.name, f) {
		return
	}
	sec := engine.BFS(engine.BFSOpts[*egState[E, S]]{
		Name:      "elgamal/bfs/" + k.name,
		Depth:     k.depth,
		NumOps:    k.nOps,
		Build:     k.build,
		Canon:     k.canon,
		Invariant: k.invariant,
		OpName:    k.opName,
		Budget:    budget,
	})
	sec.Note("key %s: depth %d = 1 Encrypt + %d homomorphic steps; %d operations per state (each through PublicKey and SecretKey)", k.name, k.depth, k.depth-1, k.nOps)
	sec.Note("transitions checked per operation family: %v", k.opCount)
	sec.Note("distinct model plaintext logs %d, distinct model nonces %d; boundary hits %v", len(k.seenMu), len(k.seenRho), k.special)
	k.cache, k.cached = nil, nil
}

// ---------------------------------------------------------------------------------------------------------------
// CT section: key construction (refusals; generator handling)

func egKeyCases[E elgamal.FiniteCyclicGroupElement[E, S], S algebra.PrimeFieldElement[S]](c *egCtx[E, S]) func(x *engine.X) {
	secrets := []namedInt{{"0", bi(0)}, {"1", bi(1)}, {"2", bi(2)}, {"q-1", new(big.Int).Sub(c.q, bi(1))}, {"w", new(big.Int).Mod(streamInt("eg/key/"+c.name, 320), c.q)}}
	gens := []namedInt{{"O", bi(0)}, {"G", bi(1)}, {"2G", bi(2)}, {"-G", new(big.Int).Sub(c.q, bi(1))}}
	return func(x *engine.X) {
		g := engine.Pick(x, "generator", gens)
		a := engine.Pick(x, "secret", secrets)
		var ge E
		if g.v.Sign() == 0 {
			ge = c.group.OpIdentity()
		} else {
			ge = c.baseMul(g.v)
		}
		x.Case(fmt.Sprintf("%s/key/%s/%s", c.name, g.name, a.name))
		sk, err := guard(func() (*elgamal.SecretKey[E, S], error) { return elgamal.NewSecretKey(ge, c.sc(a.v)) })
		bad := g.v.Sign() == 0 || a.v.Sign() == 0 || a.v.Cmp(bi(1)) == 0 // documented refusals: identity generator, a in {0,1}
		x.Observe(g.name, a.name, err == nil)
		if bad {
			if err == nil {
				x.Failf("elgamal/key/degenerate-accepted", "%s: NewSecretKey(g=%s, a=%s) accepted a documented-refused key", c.name, g.name, a.name)
			}
			return
		}
		if err != nil {
			// a generator other than the canonical one may be refused (the key types only know the canonical generator);
			// what must not happen is a key that is returned without error and does not work
			if g.v.Cmp(bi(1)) == 0 {
				x.Failf("elgamal/key/valid-refused", "%s: NewSecretKey(g=%s, a=%s) refused: %v", c.name, g.name, a.name, err)
			}
			return
		}
		// h = g^a as documented
		hexp := new(big.Int).Mul(g.v, a.v)
		hexp.Mod(hexp, c.q)
		if hk, e := c.refKey(sk.Public().Value()); e != nil || hk != c.refBase(hexp) {
			x.Failf("elgamal/key/public", "%s: NewSecretKey(g=%s, a=%s): public key %s is not g^a = %s", c.name, g.name, a.name, hk, c.refBase(hexp))
		}
		// a key returned without error must decrypt what its public key encrypts, and both paths must agree
		key := "elgamal/key"
		if g.v.Cmp(bi(1)) != 0 {
			key = "elgamal/key/nonstandard-generator"
		}
		var bad1, bad2, bad3 []string
		for _, mu := range []namedInt{{"O", bi(0)}, {"G", bi(1)}, {"wG", new(big.Int).Mod(streamInt("eg/plain/"+c.name, 320), c.q)}} {
			for _, rho := range []namedInt{{"1", bi(1)}, {"q-1", new(big.Int).Sub(c.q, bi(1))}} {
				x.Case(fmt.Sprintf("%s/key/%s/%s/%s/%s", c.name, g.name, a.name, mu.name, rho.name))
				var me E
				if mu.v.Sign() == 0 {
					me = c.group.OpIdentity()
				} else {
					me = c.baseMul(mu.v)
				}
				pt, _ := elgamal.NewPlaintext(me)
				n, _ := elgamal.NewNonce(c.sc(rho.v))
				c1, e1 := guard(func() (*elgamal.Ciphertext[E, S], error) { return sk.Public().EncryptWithNonce(pt, n) })
				c2, e2 := guard(func() (*elgamal.Ciphertext[E, S], error) { return sk.EncryptWithNonce(pt, n) })
				if e1 != nil || e2 != nil {
					x.Failf(key+"/encrypt-refused", "%s: key (g=%s, a=%s) cannot encrypt: pk %v sk %v", c.name, g.name, a.name, e1, e2)
					continue
				}
				in := fmt.Sprintf("(%s;%s)", mu.name, rho.name)
				if d1, e1 := guard(func() (*elgamal.Plaintext[E, S], error) { return sk.Decrypt(c1) }); e1 != nil || !d1.Value().Equal(me) {
					bad1 = append(bad1, in)
				}
				if d2, e2 := guard(func() (*elgamal.Plaintext[E, S], error) { return sk.Decrypt(c2) }); e2 != nil || !d2.Value().Equal(me) {
					bad2 = append(bad2, in)
				}
				if !c1.Equal(c2) {
					bad3 = append(bad3, in)
				}
			}
		}
		// the object returned by Public() is the caller's: decoding another party's key into it must not reach the secret key
		if g.v.Cmp(bi(1)) == 0 {
			x.Case(fmt.Sprintf("%s/key/%s/%s/public-is-a-copy", c.name, g.name, a.name))
			before, e0 := c.refKey(sk.Public().Value())
			otherSK, eo := elgamal.NewSecretKey(c.group.Generator(), c.sc(new(big.Int).Add(a.v, bi(5))))
			if e0 == nil && eo == nil {
				enc, ee := serde.MarshalCBOR(otherSK.Public())
				mine := sk.Public()
				if ee == nil {
					if _, ed := guard(func() (int, error) { return 0, mine.UnmarshalCBOR(enc) }); ed == nil {
						after, e1 := c.refKey(sk.Public().Value())
						me := c.baseMul(bi(7))
						pt, _ := elgamal.NewPlaintext(me)
						n, _ := elgamal.NewNonce(c.sc(bi(3)))
						ct, e2 := guard(func() (*elgamal.Ciphertext[E, S], error) { return sk.Public().EncryptWithNonce(pt, n) })
						var okDec bool
						if e2 == nil {
							d, e3 := guard(func() (*elgamal.Plaintext[E, S], error) { return sk.Decrypt(ct) })
							okDec = e3 == nil && d.Value().Equal(me)
						}
						if e1 != nil || after != before || !okDec {
							x.Failf("elgamal/key/public-aliases-secret-key", "%s: after decoding another public key into the object returned by sk.Public(), the secret key's own public key changed (%s -> %s) / it no longer decrypts what sk.Public() encrypts (%v)", c.name, before, after, okDec)
						}
					}
				}
			}
		}
		if len(bad1)+len(bad2)+len(bad3) > 0 {
			x.Failf(key+"/decrypt", "%s: NewSecretKey(g=%s, a=%s) returned a key without error, but Decrypt(PublicKey.EncryptWithNonce(m;r)) != m for (m;r) in %v; Decrypt(SecretKey.EncryptWithNonce(m;r)) != m for %v; SecretKey and PublicKey ciphertexts differ for %v", c.name, g.name, a.name, bad1, bad2, bad3)
		}
	}
}

// public key refusals
func egPublicCases[E elgamal.FiniteCyclicGroupElement[E, S], S algebra.PrimeFieldElement[S]](c *egCtx[E, S]) func(x *engine.X) {
	return func(x *engine.X) {
		which := x.Choose("h", 3)
		var h E
		switch which {
		case 0:
			h = c.group.OpIdentity()
		case 1:
			h = c.group.Generator()
		default:
			h = c.baseMul(new(big.Int).Sub(c.q, bi(1)))
		}
		x.Case(fmt.Sprintf("%s/pub/%d", c.name, which))
		pk, err := guard(func() (*elgamal.PublicKey[E, S], error) { return elgamal.NewPublicKey(h) })
		x.Observe(which, err == nil)
		if which == 0 && err == nil {
			x.Failf("elgamal/public/identity-accepted", "%s: NewPublicKey(identity) accepted", c.name)
		}
		if which != 0 && (err != nil || !pk.Value().Equal(h)) {
			x.Failf("elgamal/public/valid-refused", "%s: NewPublicKey refused a valid element: %v", c.name, err)
		}
	}
}

// ---------------------------------------------------------------------------------------------------------------

// egSections: depths[i] is the BFS depth for secret i of {2, q-1, w}.
func egSections[E elgamal.FiniteCyclicGroupElement[E, S], S algebra.PrimeFieldElement[S]](c *egCtx[E, S], depths [3]int) (ct func(), bfs []func()) {
	c.selfTest()
	ct = func() {
		engine.Explore(egKeyCases(c), engine.Opts{Name: "elgamal/keys/" + c.name, Budget: engine.Budget(time.Minute, 5*time.Minute)})
		engine.Explore(egPublicCases(c), engine.Opts{Name: "elgamal/public-key/" + c.name, Budget: engine.Budget(time.Minute, 5*time.Minute)})
	}
	for i, a := range []namedInt{{"2", bi(2)}, {"q-1", new(big.Int).Sub(c.q, bi(1))}, {"w", new(big.Int).Mod(streamInt("eg/key/"+c.name, 320), c.q)}} {
		k := newEGKey(c, a.name, a.v, depths[i])
		bfs = append(bfs, func() { k.runBFS(engine.Budget(6*time.Minute, 35*time.Minute)) })
	}
	return ct, bfs
}

func fpRef(c *refc.FpCurve) refOps {
	return refOps{
		mul: func(k *big.Int) any { return c.ScalarBaseMul(k) },
		add: func(a, b any) any { return c.Add(a.(refc.FpPoint), b.(refc.FpPoint)) },
		key: func(p any) string { return c.Key(p.(refc.FpPoint)) },
	}
}

func runElGamal() []func() {
	// quick: depth 3 for the pseudo-random secret on k256 / ed25519, depth 2 elsewhere (BLS12-381 G1 pays two subgroup
	// checks per ciphertext construction); thorough: depth 3 everywhere and depth 4 for k256 with the pseudo-random secret
	dk, de, db := [3]int{2, 2, 3}, [3]int{2, 2, 3}, [3]int{2, 2, 2}
	if engine.Thorough() {
		dk, de, db = [3]int{3, 3, 4}, [3]int{3, 3, 3}, [3]int{3, 3, 3}
	}
	kc := &egCtx[*k256.Point, *k256.Scalar]{name: "k256", group: k256.NewCurve(), field: k256.NewScalarField(), q: conv.K256N, refMem: map[string]any{}, libMem: map[string]*k256.Point{},
		comp: func(p *k256.Point) []byte { return p.ToCompressed() },
		refKey: func(p *k256.Point) (string, error) {
			q, err := refc.FpPointFromLib[*k256.BaseFieldElement](refc.K256(), p)
			return refc.K256().Key(q), err
		},
		ref: fpRef(refc.K256()),
	}
	ec := &egCtx[*edwards25519.PrimeSubGroupPoint, *edwards25519.Scalar]{name: "ed25519", group: edwards25519.NewPrimeSubGroup(), field: edwards25519.NewScalarField(), q: conv.Ed25519L, refMem: map[string]any{}, libMem: map[string]*edwards25519.PrimeSubGroupPoint{},
		comp: func(p *edwards25519.PrimeSubGroupPoint) []byte { return p.ToCompressed() },
		refKey: func(p *edwards25519.PrimeSubGroupPoint) (string, error) {
			q, err := refc.EPointFromLib[*edwards25519.BaseFieldElement](refc.Edwards25519(), p)
			return refc.Edwards25519().Key(q), err
		},
		ref: refOps{
			mul: func(k *big.Int) any { return refc.Edwards25519().ScalarBaseMul(k) },
			add: func(a, b any) any { return refc.Edwards25519().Add(a.(refc.EPoint), b.(refc.EPoint)) },
			key: func(p any) string { return refc.Edwards25519().Key(p.(refc.EPoint)) },
		},
	}
	bc := &egCtx[*bls12381.PointG1, *bls12381.Scalar]{name: "bls12381g1", group: bls12381.NewG1(), field: bls12381.NewScalarField(), q: conv.BLS12381R, refMem: map[string]any{}, libMem: map[string]*bls12381.PointG1{},
		comp: func(p *bls12381.PointG1) []byte { return p.ToCompressed() },
		refKey: func(p *bls12381.PointG1) (string, error) {
			q, err := refc.FpPointFromLib[*bls12381.BaseFieldElementG1](refc.BLS12381G1(), p)
			return refc.BLS12381G1().Key(q), err
		},
		ref: fpRef(refc.BLS12381G1()),
	}
	ct1, b1 := egSections(kc, dk)
	ct2, b2 := egSections(ec, de)
	ct3, b3 := egSections(bc, db)
	ct1()
	ct2()
	ct3()
	return append(append(b1, b2...), b3...)
}
