// C19 — transcripts and hash-to-curve are deterministic, unambiguous, domain-separated.
//
// Transcript part (model checking): ALL operation histories over a splitting alphabet are executed on the real hagrid
// transcript: depth <= 3 over the wide alphabet (58 operations) in both tiers, and depth <= 4 over the alphabet of
// DESIGN §5 C19 plus the extraction length 137 (41 operations) in the thorough tier. The map
// abstract history -> Extract("probe",32) must be injective on the whole set (decided for all pairs at once with
// a hash map), equal histories on fresh transcripts give equal bytes at every step, Clone is the identity on the
// abstract history and clones / origins evolve independently. A boring reference model of the framing in hagrid.go
// (tag byte, 64-bit lengths, extraction fork) is compared at every step and its frames are checked prefix-free,
// which explains why injectivity holds.
//
// Hash-to-curve / hash-to-field part: h2c_test.go; expand_message: expander_test.go; math/big references: ref_test.go.
package c19

import (
	"bytes"
	"crypto/sha3"
	"encoding/binary"
	"fmt"
	"os"
	"runtime/debug"
	"sort"
	"strings"
	"sync"
	"sync/atomic"
	"testing"
	"time"

	"github.com/bronlabs/bron-crypto/pkg/transcripts"
	"github.com/bronlabs/bron-crypto/pkg/transcripts/hagrid"

	"verifmc/engine"
)

func TestMain(m *testing.M) { engine.Main(m, "C19", "model_checking") }

// ---- the operation alphabet ------------------------------------------------------------------------------

const (
	kDomain = iota
	kAppend
	kExtract
	kCloneContinueOnClone
	kCloneContinueOnOrigin
)

type tOp struct {
	kind int
	s    string   // domain tag or label
	msgs [][]byte // Append
	n    uint     // Extract
	abs  int      // index among the non-clone operations (1-based digit of the abstract history id), 0 for clones
}

var ctorNames = []string{"", "a"}

func bs(ss ...string) [][]byte {
	out := make([][]byte, len(ss))
	for i, s := range ss {
		out[i] = []byte(s)
	}
	return out
}

// Two alphabets. Both are chosen so that the *same bytes* ("ab") are split differently across the label / message /
// message-count boundaries.
//
//	wide  (depth 3, both tiers): strings "", "a", "b", "ab" (two labels of equal length, so that label *bytes* and not
//	      only label lengths matter; Append("a",["b"]) / Append("ab",[]) / Append("",["ab"]) / Append("",["a","b"]) carry
//	      the same bytes), 9 message lists including both orders of ("a","b"), lengths 1, 2, 32, 64.
//	deep  (depth 4, thorough): the alphabet of DESIGN §5 C19 plus the length 137 (one byte more than the cSHAKE256 rate).
var (
	wideAlphabet = alphabetSpec{
		strs: []string{"", "a", "b", "ab"},
		msgs: [][][]byte{nil, bs(""), bs("a"), bs("b"), bs("ab"), bs("a", "b"), bs("b", "a"), bs("", "ab"), bs("a", "")},
		lens: []uint{1, 2, 32, 64},
	}
	deepAlphabet = alphabetSpec{
		strs: []string{"", "a", "ab"},
		msgs: [][][]byte{nil, bs(""), bs("a"), bs("ab"), bs("a", "b"), bs("", "ab"), bs("a", "")},
		lens: []uint{1, 2, 32, 64, 137},
	}
)

type alphabetSpec struct {
	strs []string
	msgs [][][]byte
	lens []uint
}

func (a alphabetSpec) String() string {
	ms := make([]string, len(a.msgs))
	for i, m := range a.msgs {
		ms[i] = fmt.Sprintf("%q", m)
	}
	return fmt.Sprintf("AppendDomainSeparator(t), t in %q; AppendBytes(l, msgs), l in %q, msgs in {%s}; ExtractBytes(l, n), l in %q, n in %v; Clone then continue on the clone; Clone then continue on the origin", a.strs, a.strs, strings.Join(ms, ", "), a.strs, a.lens)
}

// space is one explored set of histories: an alphabet, a depth and the global injectivity bookkeeping.
type space struct {
	suffix     string // section name suffix
	spec       alphabetSpec
	ops        []tOp
	numAbs     int // number of non-clone operations
	depth      int
	inj        *injSet
	enumerated atomic.Bool // the exploration section ran in this process
	complete   atomic.Bool // ... and covered the whole space (the count comparison is meaningful)
	enumOnce   sync.Once
}

func newSpace(suffix string, spec alphabetSpec, depth int) *space {
	sp := &space{suffix: suffix, spec: spec, depth: depth, inj: newInjSet()}
	sp.ops, sp.numAbs = buildOps(spec)
	return sp
}

const (
	probeLabel = "probe"
	probeLen   = 32
)

func buildOps(a alphabetSpec) ([]tOp, int) {
	var ops []tOp
	for _, t := range a.strs {
		ops = append(ops, tOp{kind: kDomain, s: t})
	}
	for _, l := range a.strs {
		for _, m := range a.msgs {
			ops = append(ops, tOp{kind: kAppend, s: l, msgs: m})
		}
	}
	for _, l := range a.strs {
		for _, n := range a.lens {
			ops = append(ops, tOp{kind: kExtract, s: l, n: n})
		}
	}
	for i := range ops {
		ops[i].abs = i + 1
	}
	numAbs := len(ops)
	ops = append(ops, tOp{kind: kCloneContinueOnClone}, tOp{kind: kCloneContinueOnOrigin})
	return ops, numAbs
}

func (o tOp) String() string {
	switch o.kind {
	case kDomain:
		return fmt.Sprintf("Domain(%q)", o.s)
	case kAppend:
		ms := make([]string, len(o.msgs))
		for i, m := range o.msgs {
			ms[i] = fmt.Sprintf("%q", m)
		}
		return fmt.Sprintf("Append(%q,[%s])", o.s, strings.Join(ms, ","))
	case kExtract:
		return fmt.Sprintf("Extract(%q,%d)", o.s, o.n)
	case kCloneContinueOnClone:
		return "Clone->continue-on-clone"
	default:
		return "Clone->continue-on-origin"
	}
}

func (sp *space) histString(name int, hist []int) string {
	parts := []string{fmt.Sprintf("New(%q)", ctorNames[name])}
	for _, h := range hist {
		parts = append(parts, sp.ops[h].String())
	}
	return strings.Join(parts, "; ")
}

// absID encodes (constructor name, sequence of non-clone ops) injectively: leading digit 1+name, then base-(numAbs+1)
// digits in 1..numAbs.
func (sp *space) absID(name int, abs []int) uint64 {
	id := uint64(1 + name)
	for _, a := range abs {
		id = id*uint64(sp.numAbs+1) + uint64(sp.ops[a].abs)
	}
	return id
}

func (sp *space) decodeAbsID(id uint64) string {
	var digits []int
	b := uint64(sp.numAbs + 1)
	for id >= b {
		digits = append(digits, int(id%b))
		id /= b
	}
	hist := make([]int, 0, len(digits))
	for i := len(digits) - 1; i >= 0; i-- {
		hist = append(hist, digits[i]-1)
	}
	return sp.histString(int(id)-1, hist)
}

// ---- running histories on the real transcript -----------------------------------------------------------------

type runResult struct {
	steps [][]byte // output of every Extract operation, in order
	probe []byte   // final Extract("probe",32)
	err   error
}

func applyOp(t transcripts.Transcript, o tOp, r *runResult) {
	switch o.kind {
	case kDomain:
		t.AppendDomainSeparator(o.s)
	case kAppend:
		t.AppendBytes(o.s, o.msgs...)
	case kExtract:
		out, err := t.ExtractBytes(o.s, o.n)
		if err != nil && r.err == nil {
			r.err = err
		}
		r.steps = append(r.steps, out)
	}
}

func probe(t transcripts.Transcript, r *runResult) []byte {
	out, err := t.ExtractBytes(probeLabel, probeLen)
	if err != nil && r.err == nil {
		r.err = err
	}
	return out
}

// runPlain executes a clone-free history on a fresh transcript.
func (sp *space) runPlain(name int, abs []int) runResult {
	var r runResult
	t := hagrid.NewTranscript(ctorNames[name])
	for _, a := range abs {
		applyOp(t, sp.ops[a], &r)
	}
	r.probe = probe(t, &r)
	return r
}

type asideResult struct {
	k     int // number of abstract operations performed when the transcript was set aside
	what  string
	probe []byte
}

// runWithClones executes a history with Clone operations. The transcript that is not continued is set aside and
// probed only after all later operations have been applied to the live one; then the live one is probed.
func (sp *space) runWithClones(name int, hist []int) (runResult, []asideResult) {
	var r runResult
	type aside struct {
		t    transcripts.Transcript
		k    int
		what string
	}
	var asides []aside
	live := hagrid.NewTranscript(ctorNames[name])
	k := 0
	for _, h := range hist {
		o := sp.ops[h]
		switch o.kind {
		case kCloneContinueOnClone:
			c := live.Clone()
			asides = append(asides, aside{live, k, "origin set aside, later operations applied to its clone"})
			live = c
		case kCloneContinueOnOrigin:
			c := live.Clone()
			asides = append(asides, aside{c, k, "clone set aside, later operations applied to its origin"})
		default:
			applyOp(live, o, &r)
			k++
		}
	}
	var res []asideResult
	for _, a := range asides {
		res = append(res, asideResult{a.k, a.what, probe(a.t, &r)})
	}
	r.probe = probe(live, &r)
	return r, res
}

// ---- reference model of the documented framing ----------------------------------------------------------------

// Tag values as in hagrid.go (the const block starts with the customization string, so iota is 1 at domainTag).
const (
	refDomainTag    = 0xa1
	refAppendTag    = 0xa2
	refExtractTag   = 0xa3
	refExtractedTag = 0xa4
	refContinuedTag = 0xa5
	refShakeName    = "BRON_CRYPTO_HAGRID_TRANSCRIPT-"
)

func be64(n int) []byte { return binary.BigEndian.AppendUint64(nil, uint64(n)) }

// refFrame is the byte string absorbed by one non-extract operation, or the common part of an Extract.
func refFrame(o tOp) []byte {
	var f []byte
	switch o.kind {
	case kDomain:
		f = append(f, refDomainTag)
		f = append(f, be64(len(o.s))...)
		f = append(f, o.s...)
	case kAppend:
		f = append(f, refAppendTag)
		f = append(f, be64(len(o.s))...)
		f = append(f, o.s...)
		f = append(f, be64(len(o.msgs))...)
		for _, m := range o.msgs {
			f = append(f, be64(len(m))...)
			f = append(f, m...)
		}
	case kExtract:
		f = append(f, refExtractTag)
		f = append(f, be64(len(o.s))...)
		f = append(f, o.s...)
		f = append(f, be64(int(o.n))...)
	}
	return f
}

func refSqueeze(name int, stream []byte, n uint) []byte {
	h := sha3.NewCSHAKE256(nil, []byte(refShakeName+ctorNames[name]))
	_, _ = h.Write(stream)
	_, _ = h.Write([]byte{refExtractedTag})
	out := make([]byte, n)
	_, _ = h.Read(out)
	return out
}

// runRef computes the outputs of a clone-free history from the framing alone (one cSHAKE256 per extraction).
func (sp *space) runRef(name int, abs []int) runResult {
	var r runResult
	var stream []byte
	ext := func(o tOp) []byte {
		stream = append(stream, refFrame(o)...)
		out := refSqueeze(name, stream, o.n)
		stream = append(stream, refContinuedTag)
		return out
	}
	for _, a := range abs {
		o := sp.ops[a]
		if o.kind == kExtract {
			r.steps = append(r.steps, ext(o))
		} else {
			stream = append(stream, refFrame(o)...)
		}
	}
	r.probe = ext(tOp{kind: kExtract, s: probeLabel, n: probeLen})
	return r
}

// ---- global injectivity bookkeeping -----------------------------------------------------------------------

// outKey = first 32 output bytes || requested length (32 or 64): outputs of the same requested length must be
// pairwise distinct over (history, label).
type outKey [33]byte

type collision struct{ a, b uint64 }

type injSet struct {
	shards [256]struct {
		mu sync.Mutex
		m  map[outKey]uint64
	}
	probes, steps atomic.Int64 // number of distinct entries by kind
	histories     atomic.Int64 // number of clone-free histories recorded
	cloneHist     atomic.Int64 // histories containing a Clone
	cmu           sync.Mutex
	collisions    map[collision]struct{}
}

func newInjSet() *injSet {
	s := &injSet{collisions: map[collision]struct{}{}}
	for i := range s.shards {
		s.shards[i].m = map[outKey]uint64{}
	}
	return s
}

// put records output -> owner (owner = absID<<1 | isStep). Re-recording the same owner is a no-op.
func (s *injSet) put(out []byte, n uint, owner uint64) {
	var k outKey
	copy(k[:32], out)
	k[32] = byte(n)
	sh := &s.shards[k[0]]
	sh.mu.Lock()
	prev, ok := sh.m[k]
	if !ok {
		sh.m[k] = owner
	}
	sh.mu.Unlock()
	switch {
	case !ok && owner&1 == 0:
		s.probes.Add(1)
	case !ok:
		s.steps.Add(1)
	case prev != owner:
		c := collision{min(prev, owner), max(prev, owner)}
		s.cmu.Lock()
		s.collisions[c] = struct{}{}
		s.cmu.Unlock()
	}
}

func (sp *space) ownerString(o uint64) string {
	if o&1 == 1 {
		return "output of the last operation of [" + sp.decodeAbsID(o>>1) + "]"
	}
	return "Extract(\"probe\",32) after [" + sp.decodeAbsID(o>>1) + "]"
}

// noModel disables the comparison with the framing model (VERIF_C19_NOMODEL=1). It exists only to demonstrate with
// seeded defects that the injectivity / clone oracles detect a framing ambiguity on their own.
var noModel = os.Getenv("VERIF_C19_NOMODEL") == "1"

// evalHistory is the per-history oracle; it is the body of one execution. It returns the observation.
func (sp *space) evalHistory(x *engine.X, name int, hist []int) string {
	inj, tOps := sp.inj, sp.ops
	abs := make([]int, 0, len(hist))
	for _, h := range hist {
		if tOps[h].abs != 0 {
			abs = append(abs, h)
		}
	}
	desc := func() string { return sp.histString(name, hist) }

	// (2) determinism: the same history on two fresh transcripts, compared at every step
	r1 := sp.runPlain(name, abs)
	r2 := sp.runPlain(name, abs)
	if r1.err != nil {
		x.Failf("transcript/extract-error", "ExtractBytes returned an error for a positive length in [%s]: %v", desc(), r1.err)
		return "error"
	}
	if !equalRuns(r1, r2) {
		x.Failf("transcript/determinism", "two fresh transcripts disagree on [%s]: %x vs %x", sp.histString(name, abs), r1.probe, r2.probe)
	}
	for i, s := range r1.steps {
		if len(s) != int(sp.extractLen(abs, i)) {
			x.Failf("transcript/extract-length", "ExtractBytes returned %d bytes, %d requested, in [%s]", len(s), sp.extractLen(abs, i), desc())
		}
	}
	// documented framing: the library's bytes equal the reference model's at every step
	if rr := sp.runRef(name, abs); !noModel && !equalRuns(r1, rr) {
		x.Failf("transcript/framing-model", "output differs from the documented framing (tag byte, 64-bit length of label / message count / each message / requested length, extraction fork extracted|continued) for [%s]: library steps=%x probe=%x, model steps=%x probe=%x", sp.histString(name, abs), r1.steps, r1.probe, rr.steps, rr.probe)
	}

	if len(abs) == len(hist) {
		// (1) injectivity: record the probe of this abstract history, and the output of a trailing >=32-byte
		// extraction (every (prefix, Extract) combination is the tail of exactly one clone-free history)
		id := sp.absID(name, abs)
		inj.histories.Add(1)
		inj.put(r1.probe, probeLen, id<<1)
		if n := len(abs); n > 0 && tOps[abs[n-1]].kind == kExtract && tOps[abs[n-1]].n >= 32 {
			inj.put(r1.steps[len(r1.steps)-1], tOps[abs[n-1]].n, id<<1|1)
		}
	} else {
		// (3) Clone is the identity on the abstract history, and both copies evolve independently
		inj.cloneHist.Add(1)
		r3, asides := sp.runWithClones(name, hist)
		if !equalRuns(r1, r3) {
			x.Failf("transcript/clone-identity", "[%s] gives %x (steps %x) but the same operations without Clone give %x (steps %x)", desc(), r3.probe, r3.steps, r1.probe, r1.steps)
		}
		for _, a := range asides {
			want := sp.runPlain(name, abs[:a.k])
			if !bytes.Equal(a.probe, want.probe) {
				x.Failf("transcript/clone-independence", "[%s]: %s; its probe is %x but a fresh transcript with the operations before the Clone gives %x", desc(), a.what, a.probe, want.probe)
			}
		}
	}
	return fmt.Sprintf("%x", r1.probe[:8])
}

func (sp *space) extractLen(abs []int, i int) uint {
	tOps := sp.ops
	for _, a := range abs {
		if tOps[a].kind == kExtract {
			if i == 0 {
				return tOps[a].n
			}
			i--
		}
	}
	return 0
}

func equalRuns(a, b runResult) bool {
	if !bytes.Equal(a.probe, b.probe) || len(a.steps) != len(b.steps) {
		return false
	}
	for i := range a.steps {
		if !bytes.Equal(a.steps[i], b.steps[i]) {
			return false
		}
	}
	return true
}

// chooseLevels: the first operations of a history are engine choice points (0 = stop, so every short history is an
// execution of its own); the remaining levels are enumerated by an inner loop inside the execution of their prefix.
// (One execution per history made the engine's bookkeeping, not the library, the dominant cost.)
const chooseLevels = 2

func (sp *space) historiesBody(x *engine.X) {
	name := x.Choose("name", len(ctorNames))
	var hist []int
	for len(hist) < chooseLevels && len(hist) < sp.depth {
		c := x.Choose("op", len(sp.ops)+1)
		if c == 0 {
			break
		}
		hist = append(hist, c-1)
	}
	x.Case("")
	x.Observe(sp.evalHistory(x, name, hist))
	if len(hist) < chooseLevels {
		return
	}
	var rec func(h []int)
	rec = func(h []int) {
		if len(h) == sp.depth {
			return
		}
		for o := range sp.ops {
			nh := append(h[:len(h):len(h)], o)
			x.Case("")
			sp.evalHistory(x, name, nh)
			rec(nh)
		}
	}
	rec(hist)
}

// enumerateDirect is the plain recursive enumeration of the same space; it is used only when the injectivity
// section runs without the exploration before it (replay of a recorded injectivity violation).
func (sp *space) enumerateDirect() {
	x := &engine.X{}
	var rec func(name int, hist []int)
	rec = func(name int, hist []int) {
		sp.evalHistory(x, name, hist)
		if len(hist) == sp.depth {
			return
		}
		for o := range sp.ops {
			rec(name, append(hist, o))
		}
	}
	for n := range ctorNames {
		rec(n, nil)
	}
}

func pow(b, e int) int64 {
	r := int64(1)
	for ; e > 0; e-- {
		r *= int64(b)
	}
	return r
}

// expected sizes of the explored space, from the alphabet alone
func (sp *space) expectedCounts() (concrete, abstract, steps int64) {
	depth, tOps, numAbs := sp.depth, sp.ops, sp.numAbs
	long := 0
	for _, o := range tOps {
		if o.kind == kExtract && o.n >= 32 {
			long++
		}
	}
	for k := 0; k <= depth; k++ {
		concrete += int64(len(ctorNames)) * pow(len(tOps), k)
		abstract += int64(len(ctorNames)) * pow(numAbs, k)
		if k < depth {
			steps += int64(len(ctorNames)) * pow(numAbs, k) * int64(long)
		}
	}
	return
}

// injectivityBody: the global comparison, one execution. A collision is a VIOLATION of the property.
func (sp *space) injectivityBody(x *engine.X) {
	inj := sp.inj
	if !sp.enumerated.Load() {
		sp.enumOnce.Do(func() { sp.enumerateDirect(); sp.complete.Store(true) })
	}
	_, wantAbs, wantSteps := sp.expectedCounts()
	x.Case("probe outputs")
	x.Case("trailing extraction outputs")
	inj.cmu.Lock()
	cols := make([]collision, 0, len(inj.collisions))
	for c := range inj.collisions {
		cols = append(cols, c)
	}
	inj.cmu.Unlock()
	sort.Slice(cols, func(i, j int) bool {
		if cols[i].a != cols[j].a {
			return cols[i].a < cols[j].a
		}
		return cols[i].b < cols[j].b
	})
	for _, c := range cols {
		x.Failf("transcript/injectivity", "two different histories give the same output bytes: %s == %s", sp.ownerString(c.a), sp.ownerString(c.b))
	}
	gotP, gotS, gotH := inj.probes.Load(), inj.steps.Load(), inj.histories.Load()
	if sp.complete.Load() && len(cols) == 0 && (gotP != wantAbs || gotH != wantAbs || gotS != wantSteps) {
		// #distinct outputs != #histories without a recorded collision: the enumeration itself is broken
		engine.HarnessFail("injectivity bookkeeping: %d distinct probe outputs / %d histories recorded, %d expected; %d trailing-extraction outputs, %d expected", gotP, gotH, wantAbs, gotS, wantSteps)
	}
	x.Observe(fmt.Sprintf("%d distinct probe outputs / %d clone-free histories (expected %d); %d distinct trailing-extraction outputs (expected %d); %d collisions", gotP, gotH, wantAbs, gotS, wantSteps, len(cols)))
}

// framesBody: the reference frames of the alphabet (plus the probe) are pairwise distinct and prefix-free, so a
// concatenation of frames parses in exactly one way; together with "library == model at every step" this is why
// the history -> bytes map is injective. (Checks the model, which the histories section ties to the library.)
func (sp *space) framesBody(x *engine.X) {
	tOps, numAbs := sp.ops, sp.numAbs
	type fr struct {
		name string
		b    []byte
	}
	var frames []fr
	add := func(o tOp) {
		f := refFrame(o)
		if o.kind == kExtract {
			frames = append(frames, fr{o.String() + "|extracted", append(append([]byte{}, f...), refExtractedTag)})
			frames = append(frames, fr{o.String() + "|continued", append(append([]byte{}, f...), refContinuedTag)})
		} else {
			frames = append(frames, fr{o.String(), f})
		}
	}
	for _, o := range tOps[:numAbs] {
		add(o)
	}
	add(tOp{kind: kExtract, s: probeLabel, n: probeLen})
	for i := range frames {
		for j := range frames {
			if i == j {
				continue
			}
			x.Case("")
			if bytes.HasPrefix(frames[j].b, frames[i].b) {
				x.Failf("transcript/frames-prefix-free", "frame of %s (%x) is a prefix of the frame of %s (%x)", frames[i].name, frames[i].b, frames[j].name, frames[j].b)
			}
		}
	}
	x.Observe(fmt.Sprintf("%d frames pairwise prefix-free", len(frames)))
}

// run explores one space: histories, then the global injectivity comparison, then the frame model.
func (sp *space) run() {
	wantConc, wantAbs, wantSteps := sp.expectedCounts()
	inj := sp.inj
	sec := engine.Explore(sp.historiesBody, engine.Opts{Name: "transcript/histories" + sp.suffix, Budget: engine.Budget(3*time.Minute, 25*time.Minute)})
	if !sec.Skipped {
		sp.enumerated.Store(true)
		sp.complete.Store(sec.Exhaustive)
		// explicit-state figures: a state is an abstract history (Clone erased), a transition is one executed operation
		sec.States = inj.histories.Load()
		evaluated := inj.histories.Load() + inj.cloneHist.Load()
		sec.Transitions = evaluated - int64(len(ctorNames))
		sec.Depth = sp.depth
		sec.Note("alphabet: %d operations (%d without Clone): %s", len(sp.ops), sp.numAbs, sp.spec)
		sec.Note("complete tree of operation histories to depth %d: %d histories evaluated (expected %d), %d clone-free histories = abstract states (expected %d), %d histories with Clone; %d distinct probe outputs, %d distinct trailing-extraction outputs (expected %d)", sp.depth, evaluated, wantConc, inj.histories.Load(), wantAbs, inj.cloneHist.Load(), inj.probes.Load(), inj.steps.Load(), wantSteps)
		fmt.Printf("[C19] transcript/histories%s: ops=%d depth=%d states(abstract histories)=%d transitions=%d clone-histories=%d distinct-probe-outputs=%d\n", sp.suffix, len(sp.ops), sp.depth, sec.States, sec.Transitions, inj.cloneHist.Load(), inj.probes.Load())
		if sec.Exhaustive && (evaluated != wantConc || sec.Cases != wantConc) {
			engine.HarnessFail("transcript/histories%s evaluated %d histories (%d cases), %d expected", sp.suffix, evaluated, sec.Cases, wantConc)
		}
	}
	// a collision inside a partially explored set (exploration stopped by other failures / budget) is still a real one
	engine.Explore(sp.injectivityBody, engine.Opts{Name: "transcript/injectivity" + sp.suffix})
	engine.Explore(sp.framesBody, engine.Opts{Name: "transcript/frames" + sp.suffix})
}

func TestCheck(t *testing.T) {
	// the math/big reference arithmetic allocates heavily on 16 workers; collect less often
	debug.SetGCPercent(400)
	spaces := []*space{newSpace("", wideAlphabet, 3)}
	if engine.Thorough() {
		spaces = append(spaces, newSpace("/deep", deepAlphabet, 4))
	}
	rule := "transcripts: every operation history over {constructor name in \"\",\"a\"} x the operation alphabet is executed on the real hagrid transcript and ends with Extract(\"probe\",32): "
	for _, sp := range spaces {
		c, a, _ := sp.expectedCounts()
		rule += fmt.Sprintf("[length <= %d over {%s}: %d concrete histories, %d abstract histories after erasing Clone] ", sp.depth, sp.spec, c, a)
	}
	engine.Rule(rule + "a history is distinct by its operation sequence and always non-trivial. hash-to-curve / hash-to-field / expand_message: every (curve or field or expander, DST, message[, length]) of the stated grids; a case is distinct by that tuple.")
	engine.Assume(
		"crypto/sha3 (cSHAKE256, SHAKE), crypto/sha256, crypto/sha512, x/crypto/blake2b and math/big of the Go distribution are correct",
		"the math/big reference field/curve arithmetic and the RFC 9380 expand_message / hash_to_field re-implementation in checks/c19/ref_test.go are correct (they are validated against the RFC 9380 Appendix J vectors in section h2c/kat)",
		"injectivity is decided on 32-byte outputs: equal outputs of two different histories are reported as a framing ambiguity (a genuine cSHAKE256 collision has probability < 2^-200 over the explored set)",
		"1- and 2-byte extraction outputs are compared for determinism and against the framing model only (they collide by counting)",
		"the framing model (tag bytes 0xa1..0xa5, 64-bit big-endian lengths, extraction fork) is read off hagrid.go; a deliberate change of the wire format must be mirrored in checks/c19",
		"purego build of the library",
	)
	for _, sp := range spaces {
		sp.run()
	}
	h2cSections()
	expanderSections()
}
