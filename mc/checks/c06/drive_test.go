package c06

// Round-by-round drivers (no scheduler, no router): every party object is the REAL library participant
// (redistribute.Participant, hjky.Participant, lindell22 signing.Cosigner + Aggregator); the harness only moves the
// round outputs to the round inputs, CBOR-encoding and decoding every message on the way like the repository's own
// ntu.MapO2I idiom does. All of it is safe to call from parallel goroutines (no process-global state).

import (
	"fmt"
	"io"
	"slices"

	"github.com/bronlabs/bron-crypto/pkg/base/curves/k256"
	ds "github.com/bronlabs/bron-crypto/pkg/base/datastructures"
	"github.com/bronlabs/bron-crypto/pkg/base/datastructures/hashmap"
	"github.com/bronlabs/bron-crypto/pkg/base/datastructures/hashset"
	"github.com/bronlabs/bron-crypto/pkg/base/serde"
	"github.com/bronlabs/bron-crypto/pkg/mpc"
	"github.com/bronlabs/bron-crypto/pkg/mpc/redistribute"
	"github.com/bronlabs/bron-crypto/pkg/mpc/session"
	"github.com/bronlabs/bron-crypto/pkg/mpc/sharing"
	"github.com/bronlabs/bron-crypto/pkg/mpc/sharing/accessstructures"
	"github.com/bronlabs/bron-crypto/pkg/mpc/sharing/scheme/kw"
	"github.com/bronlabs/bron-crypto/pkg/mpc/sharing/vss/feldman"
	"github.com/bronlabs/bron-crypto/pkg/mpc/signatures/schnorr/lindell22"
	l22keygen "github.com/bronlabs/bron-crypto/pkg/mpc/signatures/schnorr/lindell22/keygen"
	l22signing "github.com/bronlabs/bron-crypto/pkg/mpc/signatures/schnorr/lindell22/signing"
	"github.com/bronlabs/bron-crypto/pkg/mpc/zero/hjky"
	"github.com/bronlabs/bron-crypto/pkg/proofs/sigma/compiler/fiatshamir"
	"github.com/bronlabs/bron-crypto/pkg/signatures/schnorrlike/bip340"

	"verifmc/det"
	"verifmc/engine"
)

type (
	ID    = sharing.ID
	Shard = mpc.BaseShard[*k256.Point, *k256.Scalar]
	Share = feldman.Share[*k256.Scalar]
	VV    = feldman.VerificationVector[*k256.Point, *k256.Scalar]
)

func idSet(ids ...ID) ds.Set[ID] { return hashset.NewComparable(ids...).Freeze() }

func sorted(ids []ID) []ID { o := slices.Clone(ids); slices.Sort(o); return o }

func contains(ids []ID, id ID) bool { return slices.Contains(ids, id) }

func minus(ids []ID, drop ...ID) []ID {
	var o []ID
	for _, id := range ids {
		if !slices.Contains(drop, id) {
			o = append(o, id)
		}
	}
	return o
}

func union(a, b []ID) []ID {
	o := slices.Clone(a)
	for _, id := range b {
		if !slices.Contains(o, id) {
			o = append(o, id)
		}
	}
	return sorted(o)
}

// stream is the deterministic byte stream for (engine seed, label).
func stream(label string) io.Reader { return det.New(engine.Seed(), "c06/"+label) }

// contexts builds consistent session contexts for a quorum from deterministic seeds with the documented
// constructor (what session setup would output). Errors are returned (a one-party quorum is not a session).
func contexts(ids []ID, label string) (map[ID]*session.Context, error) {
	r := stream("ctx/" + label)
	common := make([]byte, 64)
	_, _ = io.ReadFull(r, common)
	s := sorted(ids)
	pair := map[ID]map[ID][]byte{}
	for _, id := range s {
		pair[id] = map[ID][]byte{}
	}
	for i := range s {
		for j := i + 1; j < len(s); j++ {
			b := make([]byte, 64)
			_, _ = io.ReadFull(r, b)
			pair[s[i]][s[j]] = b
			pair[s[j]][s[i]] = b
		}
	}
	out := map[ID]*session.Context{}
	q := idSet(ids...)
	for _, id := range s {
		c, err := session.NewContext(id, q, common, pair[id])
		if err != nil {
			return nil, fmt.Errorf("session.NewContext(%d, %v): %w", id, s, err)
		}
		out[id] = c
	}
	return out, nil
}

// wire hands a message over as a fresh object decoded from the sender's CBOR encoding.
func wire[M any](m M) (M, error) {
	b, err := serde.MarshalCBOR(m)
	if err != nil {
		return m, fmt.Errorf("round message %T does not encode: %w", m, err)
	}
	out, err := serde.UnmarshalCBOR[M](b)
	if err != nil {
		return m, fmt.Errorf("round message %T does not decode from its own encoding: %w", m, err)
	}
	return out, nil
}

// inBroadcast: what `me` receives in a broadcast round from the given senders.
func inBroadcast[M any](senders []ID, me ID, out map[ID]M) (ds.Map[ID, M], error) {
	in := map[ID]M{}
	for _, s := range senders {
		if s == me {
			continue
		}
		m, err := wire(out[s])
		if err != nil {
			return nil, err
		}
		in[s] = m
	}
	return hashmap.NewImmutableComparableFromNativeLike(in), nil
}

// inUnicast: the message every other sender addressed to `me`.
func inUnicast[M any](senders []ID, me ID, out map[ID]ds.Map[ID, M]) (ds.Map[ID, M], error) {
	in := map[ID]M{}
	for _, s := range senders {
		if s == me || out[s] == nil {
			continue
		}
		if m, ok := out[s].Get(me); ok {
			w, err := wire(m)
			if err != nil {
				return nil, err
			}
			in[s] = w
		}
	}
	return hashmap.NewImmutableComparableFromNativeLike(in), nil
}

// ---------------------------------------------------------------------------------------------------------------
// redistribution (refresh / refresh-by / recover / redistribute are all this protocol)

type redistArgs struct {
	label  string
	prev   []ID          // driving previous holders (qualified in the previous structure)
	shards map[ID]*Shard // the shard each party passes as prevShard (absent = nil: lost / never had one)
	next   accessstructures.Monotone
	anchor ID // 0 = none; configured by every party that is NOT a previous holder
}

type redistResult struct {
	out map[ID]*Shard // per party of the session: the returned shard (nil for leaving parties)
	err map[ID]error  // per party: the first error (constructor or round)
}

func (r *redistResult) firstErr() error {
	for _, id := range sorted(keys(r.err)) {
		if r.err[id] != nil {
			return fmt.Errorf("party %d: %w", id, r.err[id])
		}
	}
	return nil
}

func keys[V any](m map[ID]V) []ID {
	var o []ID
	for k := range m {
		o = append(o, k)
	}
	return o
}

// redistributeRounds runs the three rounds of every party of the session prev ∪ holders(next). A party that errs
// stops; the others continue with what they have (their own input validation then decides), so that refusals of
// single parties are observable.
func redistributeRounds(a redistArgs) *redistResult {
	var nextIDs []ID
	for id := range a.next.Shareholders().Iter() {
		nextIDs = append(nextIDs, id)
	}
	all := union(a.prev, nextIDs)
	res := &redistResult{out: map[ID]*Shard{}, err: map[ID]error{}}
	ctxs, err := contexts(all, a.label)
	if err != nil {
		for _, id := range all {
			res.err[id] = err
		}
		return res
	}
	prevSet := idSet(a.prev...)
	ps := map[ID]*redistribute.Participant[*k256.Point, *k256.Scalar]{}
	for _, id := range all {
		var opts []redistribute.Option
		if a.anchor != 0 && !contains(a.prev, id) {
			opts = append(opts, redistribute.WithTrustedAnchorID(a.anchor))
		}
		p, err := redistribute.NewParticipant(ctxs[id], prevSet, a.shards[id], a.next, stream(fmt.Sprintf("%s/p%d", a.label, id)), opts...)
		if err != nil {
			res.err[id] = fmt.Errorf("NewParticipant: %w", err)
			continue
		}
		ps[id] = p
	}
	alive := func() []ID {
		var o []ID
		for _, id := range all {
			if res.err[id] == nil {
				o = append(o, id)
			}
		}
		return o
	}
	type (
		r1bT = *redistribute.Round1Broadcast[*k256.Point, *k256.Scalar]
		r1uT = *redistribute.Round1P2P[*k256.Point, *k256.Scalar]
		r2bT = *redistribute.Round2Broadcast[*k256.Point, *k256.Scalar]
		r2uT = *redistribute.Round2P2P[*k256.Point, *k256.Scalar]
	)
	r1b := map[ID]r1bT{}
	r1u := map[ID]ds.Map[ID, r1uT]{}
	for _, id := range alive() {
		b, u, err := ps[id].Round1()
		if err != nil {
			res.err[id] = fmt.Errorf("Round1: %w", err)
			continue
		}
		r1b[id], r1u[id] = b, u
	}
	r2b := map[ID]r2bT{}
	r2u := map[ID]ds.Map[ID, r2uT]{}
	senders1 := alive()
	for _, id := range senders1 {
		inb, err := inBroadcast(senders1, id, r1b)
		if err == nil {
			var inu ds.Map[ID, r1uT]
			inu, err = inUnicast(senders1, id, r1u)
			if err == nil {
				var b r2bT
				var u ds.Map[ID, r2uT]
				b, u, err = ps[id].Round2(inb, inu)
				if err == nil {
					r2b[id], r2u[id] = b, u
					continue
				}
				err = fmt.Errorf("Round2: %w", err)
			}
		}
		res.err[id] = err
	}
	senders2 := alive()
	for _, id := range senders2 {
		inb, err := inBroadcast(senders2, id, r2b)
		if err == nil {
			var inu ds.Map[ID, r2uT]
			inu, err = inUnicast(senders2, id, r2u)
			if err == nil {
				var sh *Shard
				sh, err = ps[id].Round3(inb, inu)
				if err == nil {
					res.out[id] = sh
					continue
				}
				err = fmt.Errorf("Round3: %w", err)
			}
		}
		res.err[id] = err
	}
	return res
}

// ---------------------------------------------------------------------------------------------------------------
// HJKY zero sharing over an access structure

type zeroOut struct {
	share *Share
	vv    *VV
}

// hjkyRounds runs the two HJKY rounds of all holders of ac. If cheater != 0 that party is simulated by the harness:
// instead of a sharing of zero it deals (with the library's own Feldman dealer, so that every share verifies against
// the broadcast vector) a sharing whose constant term is `constant`.
func hjkyRounds(label string, ac accessstructures.Monotone, cheater ID, constant *k256.Scalar) (map[ID]*zeroOut, map[ID]error) {
	var ids []ID
	for id := range ac.Shareholders().Iter() {
		ids = append(ids, id)
	}
	ids = sorted(ids)
	out, errsOut := map[ID]*zeroOut{}, map[ID]error{}
	ctxs, err := contexts(ids, label)
	if err != nil {
		for _, id := range ids {
			errsOut[id] = err
		}
		return out, errsOut
	}
	curve := k256.NewCurve()
	type (
		bT = *hjky.Round1Broadcast[*k256.Point, *k256.Scalar]
		uT = *hjky.Round1P2P[*k256.Point, *k256.Scalar]
	)
	ps := map[ID]*hjky.Participant[*k256.Point, *k256.Scalar]{}
	r1b := map[ID]bT{}
	r1u := map[ID]ds.Map[ID, uT]{}
	for _, id := range ids {
		if id == cheater {
			scheme, err := feldman.NewScheme(curve, ac)
			if err != nil {
				panic(engine.HarnessError{Msg: "feldman.NewScheme for the deviating HJKY dealer: " + err.Error()})
			}
			d, err := scheme.Deal(kw.NewSecret(constant), stream(fmt.Sprintf("%s/cheat%d", label, id)))
			if err != nil {
				panic(engine.HarnessError{Msg: "Deal for the deviating HJKY dealer: " + err.Error()})
			}
			r1b[id] = &hjky.Round1Broadcast[*k256.Point, *k256.Scalar]{VerificationVector: d.VerificationMaterial()}
			u := map[ID]uT{}
			for _, o := range ids {
				if o != id {
					s, _ := d.Shares().Get(o)
					u[o] = &hjky.Round1P2P[*k256.Point, *k256.Scalar]{ZeroShare: s}
				}
			}
			r1u[id] = hashmap.NewImmutableComparableFromNativeLike(u)
			continue
		}
		p, err := hjky.NewParticipant(ctxs[id], ac, curve, stream(fmt.Sprintf("%s/p%d", label, id)))
		if err != nil {
			errsOut[id] = fmt.Errorf("hjky.NewParticipant: %w", err)
			continue
		}
		ps[id] = p
		b, u, err := p.Round1()
		if err != nil {
			errsOut[id] = fmt.Errorf("hjky Round1: %w", err)
			continue
		}
		r1b[id], r1u[id] = b, u
	}
	var senders []ID
	for _, id := range ids {
		if errsOut[id] == nil {
			senders = append(senders, id)
		}
	}
	for _, id := range senders {
		if id == cheater {
			continue
		}
		inb, err := inBroadcast(senders, id, r1b)
		if err == nil {
			var inu ds.Map[ID, uT]
			inu, err = inUnicast(senders, id, r1u)
			if err == nil {
				var s *Share
				var v *VV
				s, v, err = ps[id].Round2(inb, inu)
				if err == nil {
					out[id] = &zeroOut{s, v}
					continue
				}
				err = fmt.Errorf("hjky Round2: %w", err)
			}
		}
		errsOut[id] = err
	}
	return out, errsOut
}

// ---------------------------------------------------------------------------------------------------------------
// Lindell22 BIP-340 signing + outside aggregator

type signResult struct {
	sig   *bip340.Signature
	stage string // where it stopped: "", "shard", "context", "cosigner", "round1", "round2", "round3", "aggregate"
	err   error
	libOK bool // the library verifier accepted the aggregated signature under the aggregator's key material
}

// signRounds signs msg with the given base shards (shards[id] is what party id uses; they may come from different
// epochs) and aggregates with an outside aggregator built from aggShard's public material.
func signRounds(label string, shards map[ID]*Shard, quorum []ID, aggShard *Shard, msg []byte) *signResult {
	quorum = sorted(quorum)
	res := &signResult{}
	l22 := map[ID]*lindell22.Shard[*k256.Point, *k256.Scalar]{}
	for _, id := range quorum {
		sh, err := l22keygen.NewShard(shards[id])
		if err != nil {
			res.stage, res.err = "shard", fmt.Errorf("lindell22 NewShard(%d): %w", id, err)
			return res
		}
		l22[id] = sh
	}
	aggL22, err := l22keygen.NewShard(aggShard)
	if err != nil {
		res.stage, res.err = "shard", err
		return res
	}
	scheme, err := bip340.NewScheme(stream(label + "/scheme"))
	if err != nil {
		panic(engine.HarnessError{Msg: "bip340.NewScheme: " + err.Error()})
	}
	ctxs, err := contexts(quorum, label)
	if err != nil {
		res.stage, res.err = "context", err
		return res
	}
	cs := map[ID]*l22signing.Cosigner[*k256.Point, *k256.Scalar, []byte]{}
	for _, id := range quorum {
		c, err := l22signing.NewCosigner(ctxs[id], l22[id], fiatshamir.Name, scheme.Variant(), stream(fmt.Sprintf("%s/p%d", label, id)))
		if err != nil {
			res.stage, res.err = "cosigner", fmt.Errorf("NewCosigner(%d): %w", id, err)
			return res
		}
		cs[id] = c
	}
	type (
		b1T = *l22signing.Round1Broadcast[*k256.Point, *k256.Scalar, []byte]
		u1T = *l22signing.Round1P2P[*k256.Point, *k256.Scalar, []byte]
		b2T = *l22signing.Round2Broadcast[*k256.Point, *k256.Scalar, []byte]
	)
	r1b := map[ID]b1T{}
	r1u := map[ID]ds.Map[ID, u1T]{}
	for _, id := range quorum {
		b, u, err := cs[id].Round1()
		if err != nil {
			res.stage, res.err = "round1", fmt.Errorf("cosigner %d Round1: %w", id, err)
			return res
		}
		r1b[id], r1u[id] = b, u
	}
	r2b := map[ID]b2T{}
	for _, id := range quorum {
		inb, err := inBroadcast(quorum, id, r1b)
		if err == nil {
			var inu ds.Map[ID, u1T]
			inu, err = inUnicast(quorum, id, r1u)
			if err == nil {
				var b b2T
				b, err = cs[id].Round2(inb, inu)
				if err == nil {
					r2b[id] = b
					continue
				}
			}
		}
		res.stage, res.err = "round2", fmt.Errorf("cosigner %d Round2: %w", id, err)
		return res
	}
	ps := map[ID]*lindell22.PartialSignature[*k256.Point, *k256.Scalar]{}
	for _, id := range quorum {
		inb, err := inBroadcast(quorum, id, r2b)
		if err == nil {
			var p *lindell22.PartialSignature[*k256.Point, *k256.Scalar]
			p, err = cs[id].Round3(inb, msg)
			if err == nil {
				ps[id] = p
				continue
			}
		}
		res.stage, res.err = "round3", fmt.Errorf("cosigner %d Round3: %w", id, err)
		return res
	}
	agg, err := l22signing.NewAggregator(aggL22.PublicKeyMaterial(), scheme)
	if err != nil {
		res.stage, res.err = "aggregate", fmt.Errorf("NewAggregator: %w", err)
		return res
	}
	sig, err := agg.Aggregate(hashmap.NewComparableFromNativeLike(ps).Freeze(), msg)
	if err != nil {
		res.stage, res.err = "aggregate", fmt.Errorf("Aggregate: %w", err)
		return res
	}
	res.sig = sig
	if vf, err := scheme.Verifier(); err == nil {
		res.libOK = vf.Verify(sig, aggL22.PublicKey(), msg) == nil
	}
	return res
}
