package c04

import (
	"os"
	"fmt"
	"regexp"
	"sort"
	"strings"
	"sync"

	"verifmc/det"
	"verifmc/proto"
	"verifmc/ref/cbor"
	"verifmc/schednet"
)

// fault is one single deviation of one party: one operator applied at one address.
type fault struct {
	Cid  string   // wire correlation id of the altered message
	From proto.ID // the deviating party
	To   proto.ID // 0 = every recipient of that message, altered identically (uniform broadcast tampering)
	Path string   // leaf/container path inside the payload tree ("" for whole-message operators)
	Op   string
	K    int64 // splice: index of the deviator's random draw that is made differently
	R    int   // splice: from this round of the deviator on, its messages come from the alternative run
}

func (f fault) String() string {
	if f.Op == "splice" {
		return fmt.Sprintf("splice: party %d sends, from its round %d on, the messages of its own run in which its random draw #%d was different", f.From, f.R, f.K)
	}
	to := "all"
	if f.To != 0 {
		to = fmt.Sprint(f.To)
	}
	return fmt.Sprintf("%s %d>%s %s %s", f.Cid, f.From, to, f.Path, f.Op)
}

type zeroChooser struct{}

func (zeroChooser) Choose(string, int) int    { return 0 }
func (zeroChooser) ChooseDev(string, int) int { return 0 }

type harvest struct {
	trace  []*schednet.Msg
	byKey  map[string]*schednet.Msg
	faults []fault
	rounds map[proto.ID][]string // per sender: its correlation ids in send order
	calls  map[proto.ID]int64    // per party: number of Read calls on its own random stream
	labels map[proto.ID]string   // per party: label of its random stream
}

// roundOf returns the index of cid among the sender's exchanges (-1 if unknown).
func (h *harvest) roundOf(from proto.ID, cid string) int {
	for i, c := range h.rounds[from] {
		if c == cid {
			return i
		}
	}
	return -1
}

var (
	harvestMu sync.Mutex
	harvests  = map[string]*harvest{}
)

// getHarvest runs the honest execution once per (case, seed) and derives the complete single-fault list from it.
func getHarvest(c *proto.Case, seed int64, deviators []proto.ID) *harvest {
	harvestMu.Lock()
	defer harvestMu.Unlock()
	k := fmt.Sprintf("%s/%d", c.Name, seed)
	if h, ok := harvests[k]; ok {
		return h
	}
	net := schednet.New(c.IDs...)
	det.Record()
	e := c.Run(zeroChooser{}, net, seed)
	streams := det.Recorded()
	for id, p := range e.Parties {
		if !p.OK || p.Bad != "" {
			panic(fmt.Sprintf("harvest: honest run of %s failed at party %d: err=%v bad=%s panic=%s", c.Name, id, p.Err, p.Bad, p.Panic))
		}
	}
	// canonical order: Router.SendTo ranges over a Go map, so the order of Send calls is not deterministic
	h := &harvest{byKey: map[string]*schednet.Msg{}, rounds: map[proto.ID][]string{}, calls: map[proto.ID]int64{}, labels: map[proto.ID]string{}}
	{
		first := map[proto.ID]map[string]int{}
		for _, m := range net.Trace {
			if first[m.From] == nil {
				first[m.From] = map[string]int{}
			}
			if _, ok := first[m.From][m.Cid]; !ok {
				first[m.From][m.Cid] = m.Seq
			}
		}
		for from, cs := range first {
			var cids []string
			for cid := range cs {
				cids = append(cids, cid)
			}
			sort.Slice(cids, func(i, j int) bool { return cs[cids[i]] < cs[cids[j]] })
			h.rounds[from] = cids
		}
		for _, id := range c.IDs {
			suffix := fmt.Sprintf("/%d", id)
			for _, st := range streams {
				if st.Seed == seed && strings.HasSuffix(st.Label, suffix) {
					h.calls[id] += st.Calls
					h.labels[id] = st.Label
				}
			}
		}
	}
	sort.Slice(net.Trace, func(i, j int) bool { return net.Trace[i].Key() < net.Trace[j].Key() })
	h.trace = net.Trace
	for _, m := range net.Trace {
		h.byKey[m.Key()] = m
	}
	isDev := map[proto.ID]bool{}
	for _, d := range deviators {
		isDev[d] = true
	}
	// group: broadcasts (identical payload to every recipient) are altered uniformly; everything else per recipient
	type slot struct {
		cid  string
		from proto.ID
	}
	bySlot := map[slot][]*schednet.Msg{}
	var order []slot
	for _, m := range net.Trace {
		if !isDev[m.From] || m.Occ != 0 {
			continue
		}
		s := slot{m.Cid, m.From}
		if _, ok := bySlot[s]; !ok {
			order = append(order, s)
		}
		bySlot[s] = append(bySlot[s], m)
	}
	sort.Slice(order, func(i, j int) bool {
		if order[i].cid != order[j].cid {
			return order[i].cid < order[j].cid
		}
		return order[i].from < order[j].from
	})
	for _, s := range order {
		ms := bySlot[s]
		sort.Slice(ms, func(i, j int) bool { return ms[i].To < ms[j].To })
		uniform := len(ms) > 1 && strings.Contains(s.cid, "BROADCAST:") && !strings.Contains(s.cid, "EchoRound2P2P")
		if uniform {
			for _, m := range ms[1:] {
				if string(m.Payload) != string(ms[0].Payload) {
					uniform = false
				}
			}
		}
		if strings.Contains(s.cid, "BROADCAST:") && len(ms) == 1 {
			uniform = true // two-party broadcast: one recipient
		}
		targets := []*schednet.Msg{ms[0]}
		if !uniform {
			targets = ms
		}
		for _, m := range targets {
			to := m.To
			if uniform {
				to = 0
			}
			tr, err := cbor.Parse(m.Payload)
			if err != nil {
				panic("harvest: unparsable payload " + m.Key())
			}
			if string(cbor.Encode(tr)) != string(m.Payload) {
				panic("harvest: payload does not re-encode to itself: " + m.Key())
			}
			for _, r := range cbor.Walk(tr) {
				for _, op := range opsFor(r, indexAlphabetOK(r.Path)) {
					h.faults = append(h.faults, fault{Cid: s.cid, From: s.from, To: to, Path: r.Path, Op: op})
				}
				if r.Parent != nil && r.Parent.Kind == cbor.Map && indexAlphabetOK(r.Path) {
					h.faults = append(h.faults, fault{Cid: s.cid, From: s.from, To: to, Path: r.Path, Op: "drop-field"})
				}
			}
			h.faults = append(h.faults, fault{Cid: s.cid, From: s.from, To: to, Path: "", Op: "drop"})
			h.faults = append(h.faults, fault{Cid: s.cid, From: s.from, To: to, Path: "", Op: "replay-other-sender"})
			h.faults = append(h.faults, fault{Cid: s.cid, From: s.from, To: to, Path: "", Op: "replay-other-session"})
			if !uniform && len(ms) > 1 {
				h.faults = append(h.faults, fault{Cid: s.cid, From: s.from, To: to, Path: "", Op: "swap-recipient"})
			}
		}
	}
	// splice faults: one per (deviator, random draw, round from which the alternative run's messages are sent)
	if !noSplice {
		for _, d := range deviators {
			for k := int64(0); k < h.calls[d]; k++ {
				for r := 1; r < len(h.rounds[d]); r++ {
					h.faults = append(h.faults, fault{From: d, Op: "splice", K: k, R: r})
				}
			}
		}
	}
	if op := os.Getenv("C04_OP"); op != "" { // development aid (mutant demonstrations): only the faults of one operator
		var keep []fault
		for _, f := range h.faults {
			if f.Op == op {
				keep = append(keep, f)
			}
		}
		h.faults = keep
	}
	harvests[k] = h
	return h
}

var noSplice = false

// getSplice runs the case with party d's random draw #k made differently (everything else identical) and returns
// that run's messages by key.
func getSplice(c *proto.Case, seed int64, h *harvest, d proto.ID, k int64) map[string]*schednet.Msg {
	harvestMu.Lock()
	defer harvestMu.Unlock()
	key := fmt.Sprintf("%s/%d/splice/%d/%d", c.Name, seed, d, k)
	if m, ok := splices[key]; ok {
		return m
	}
	det.SetFlip(seed, h.labels[d], k)
	net := schednet.New(c.IDs...)
	func() {
		defer func() { _ = recover() }() // the alternative run may legitimately fail; its messages up to there are what we need
		c.Run(zeroChooser{}, net, seed)
	}()
	det.ClearFlips()
	m := map[string]*schednet.Msg{}
	for _, t := range net.Trace {
		m[t.Key()] = t
	}
	splices[key] = m
	return m
}

var splices = map[string]map[string]*schednet.Msg{}

var idxRe = regexp.MustCompile(`\[(\d+)\]`)

// indexAlphabetOK: inside homogeneous arrays longer than 8 only indices {0,1,last-1,last,mid} are used in quick;
// the walker does not know lengths here, so this keeps every index < 4 plus those the caller adds; thorough keeps all.
func indexAlphabetOK(path string) bool {
	if thoroughAll {
		return true
	}
	for _, m := range idxRe.FindAllStringSubmatch(path, -1) {
		var i int
		fmt.Sscan(m[1], &i)
		if i >= 4 {
			return false
		}
	}
	return true
}

var thoroughAll = false

func opsFor(r cbor.Ref, ok bool) []string {
	if !ok {
		return nil
	}
	n := r.Node
	switch {
	case n.Kind == cbor.Bytes && !n.Embedded:
		if len(n.Data) == 0 {
			return []string{"append-byte"}
		}
		ops := []string{"flip-lsb", "flip-msb", "zero", "donor-other-sender", "donor-other-session"}
		if len(n.Data) > 2 {
			ops = append(ops, "flip-mid")
		}
		if len(n.Data) >= 16 {
			// the adaptive ("believing") deviator: the value is altered in the message AND wherever the sender's own
			// memory holds it, so everything the sender computes later is consistent with the altered value
			ops = append(ops, "believe")
		}
		return ops
	case n.Kind == cbor.Uint || n.Kind == cbor.Nint:
		return []string{"int+1", "int:=0", "donor-other-sender"}
	case n.Kind == cbor.Text:
		return []string{"text-flip"}
	case n.Kind == cbor.Array:
		if len(n.Items) == 0 {
			return nil
		}
		return []string{"array-drop-last", "array-dup-last", "array-swap-first-two"}
	}
	return nil
}

// applyOp mutates the node addressed by f.Path inside payload. donor returns a same-slot payload to take values from.
func applyOp(f fault, payload []byte, donorOther, donorSession []byte) (out []byte, applied bool, note string) {
	tr, err := cbor.Parse(payload)
	if err != nil {
		return nil, false, "payload unparsable"
	}
	ref := cbor.Find(tr, f.Path)
	if ref == nil {
		return nil, false, "path not present in this execution"
	}
	n := ref.Node
	fromDonor := func(d []byte) bool {
		if d == nil {
			return false
		}
		dt, err := cbor.Parse(d)
		if err != nil {
			return false
		}
		dr := cbor.Find(dt, f.Path)
		if dr == nil || dr.Node.Kind != n.Kind {
			return false
		}
		if string(cbor.Encode(dr.Node)) == string(cbor.Encode(n)) {
			return false // same value: not a deviation
		}
		*n = *dr.Node.Clone()
		return true
	}
	switch f.Op {
	case "flip-lsb":
		n.Data[len(n.Data)-1] ^= 1
	case "flip-msb":
		n.Data[0] ^= 0x80
	case "flip-mid", "believe":
		n.Data[len(n.Data)/2] ^= 0x10
	case "zero":
		allZero := true
		for _, b := range n.Data {
			if b != 0 {
				allZero = false
			}
		}
		if allZero {
			return nil, false, "already zero"
		}
		for i := range n.Data {
			n.Data[i] = 0
		}
	case "append-byte":
		n.Data = append(n.Data, 1)
	case "donor-other-sender":
		if !fromDonor(donorOther) {
			return nil, false, "no differing donor value from another sender"
		}
	case "donor-other-session":
		if !fromDonor(donorSession) {
			return nil, false, "no differing donor value from the parallel session"
		}
	case "int+1":
		n.Arg++
	case "int:=0":
		if n.Arg == 0 && n.Kind == cbor.Uint {
			return nil, false, "already zero"
		}
		n.Kind, n.Arg = cbor.Uint, 0
	case "text-flip":
		if len(n.Data) == 0 {
			n.Data = []byte("x")
		} else {
			n.Data[0] ^= 1
		}
	case "array-drop-last":
		n.Items = n.Items[:len(n.Items)-1]
	case "array-dup-last":
		n.Items = append(n.Items, n.Items[len(n.Items)-1].Clone())
	case "array-swap-first-two":
		if len(n.Items) < 2 || string(cbor.Encode(n.Items[0])) == string(cbor.Encode(n.Items[1])) {
			return nil, false, "nothing to swap"
		}
		n.Items[0], n.Items[1] = n.Items[1], n.Items[0]
	case "drop-field":
		par := ref.Parent
		par.Items = append(par.Items[:ref.Index-1:ref.Index-1], par.Items[ref.Index+1:]...)
	default:
		return nil, false, "unknown op"
	}
	out = cbor.Encode(tr)
	if string(out) == string(payload) {
		return nil, false, "no change"
	}
	return out, true, ""
}

// leafData returns the bytes of the byte-string leaf at path ("" when absent).
func leafData(payload []byte, path string) []byte {
	tr, err := cbor.Parse(payload)
	if err != nil {
		return nil
	}
	if ref := cbor.Find(tr, path); ref != nil && ref.Node.Kind == cbor.Bytes {
		return append([]byte{}, ref.Node.Data...)
	}
	return nil
}

// normPath replaces array indices by [*] (allow-list patterns are index independent).
func normPath(p string) string { return idxRe.ReplaceAllString(p, "[*]") }
